(* RetryInv_AcctLive.v — C01 liveness: from every reachable, not hung state of the retry / reconnect
   model, once connections numbered K and above are fault-free, an explicit continuation without
   submissions leads to a quiescent state in which every accepted request is acknowledged. *)
From MQ Require Import Base RetryCore RetrySys CheckRetry RetryProps RetryInv_Acct RetryInv_AcctSys.
Open Scope nat_scope.

Section Good.
Variable cfg : config.
Variable fp : fplan.

(* ---------- a fault-free, live, accepted, initialised connection ---------- *)
Definition good (w : world) (k : nat) : Prop :=
  cl_inited (get_client w k) = true /\ cl_alive (get_client w k) = true
  /\ cl_accepted (get_client w k) = true
  /\ (forall i, cl_sent (get_client w k) <= i -> fp k i = FNone).

Lemma alive_lt w k : cl_alive (get_client w k) = true -> k < length (w_clients w).
Proof.
  unfold get_client. intros H. destruct (Nat.lt_ge_cases k (length (w_clients w))); auto.
  rewrite nth_overflow in H by auto. discriminate.
Qed.

Definition gframe (k : nat) (w w' : world) : Prop :=
  good w' k /\ w_retryq w' = w_retryq w /\ w_nrbe w' = w_nrbe w /\ w_hung w' = w_hung w.

Lemma gframe_trans k w w1 w2 : gframe k w w1 -> gframe k w1 w2 -> gframe k w w2.
Proof. unfold gframe. intros (_ & A1 & A2 & A3) (G & B1 & B2 & B3). splits; auto; congruence. Qed.

Lemma gframe_same k w w' :
  good w k -> w_clients w' = w_clients w -> w_retryq w' = w_retryq w -> w_nrbe w' = w_nrbe w ->
  w_hung w' = w_hung w -> gframe k w w'.
Proof. unfold gframe, good, get_client. intros (G1 & G2 & G3 & G4) E1 E2 E3 E4. rewrite E1. splits; auto. Qed.

Lemma send_good w k p : good w k -> exists w', send cfg fp w k p = (w', CAck) /\ gframe k w w'.
Proof.
  intros (Hi & Ha & Hc & Hf). pose proof (alive_lt _ _ Ha) as Hk.
  unfold send. rewrite Ha, Hc. cbn [negb]. rewrite (Hf _ (le_n _)). eexists; split; [reflexivity|].
  unfold gframe, good, get_client in *. wproj. rewrite nth_upd_nth_same by auto.
  cbn [bump cl_inited cl_alive cl_accepted cl_sent]. splits; auto.
  intros i Hle. apply Hf. lia.
Qed.

Lemma attempt1_good w k p uid e : good w k ->
  exists w', attempt1 cfg fp k w p uid e = (w', ADone) /\ gframe k w w'.
Proof.
  intros G. unfold attempt1. destruct G as (Hi & G'). rewrite Hi. cbn [negb].
  destruct (send_good w k p (conj Hi G')) as (w1 & Es & G1). rewrite Es.
  eexists; split; [reflexivity|]. eapply gframe_trans; [exact G1|].
  apply gframe_same; wproj; auto. apply G1.
Qed.

Lemma attempt_publish_good w k m dup : good w k ->
  exists w', attempt_publish cfg fp w k m dup = (w', ADone) /\ gframe k w w'.
Proof.
  intros G. unfold attempt_publish. destruct G as (Hi & G'). rewrite Hi. cbn [negb].
  destruct (send_good w k (PPublish m dup) (conj Hi G')) as (w1 & Es & G1). rewrite Es.
  destruct (p_qos m =? 0)%N; [|destruct (p_qos m =? 1)%N].
  - eexists; split; [reflexivity | exact G1].
  - eexists; split; [reflexivity|]. eapply gframe_trans; [exact G1|].
    apply gframe_same; wproj; auto. apply G1.
  - rewrite attempt_pubrel_eq. destruct (attempt1_good w1 k (PPubRel (p_uid m)) (p_uid m) (RPubRel m)) as (w2 & E2 & G2).
    { apply G1. }
    rewrite E2. eexists; split; [reflexivity|]. eapply gframe_trans; eauto.
Qed.

Lemma do_publish_good w k m : good w k -> gframe k w (do_publish cfg fp w k m).
Proof.
  intros G. unfold do_publish. destruct (attempt_publish_good w k m false G) as (w' & E & G').
  rewrite E. exact G'.
Qed.

Lemma do_subscribe_good w k uid ss : good w k -> gframe k w (do_subscribe cfg fp w k uid ss).
Proof.
  intros G. unfold do_subscribe. rewrite attempt_subscribe_eq.
  assert (G0 : gframe k w (set_subest w (est_apply_subs (w_subest w) ss))) by (apply gframe_same; auto).
  destruct (attempt1_good _ k (PSubscribe uid ss) uid (RSubscribe uid ss) (proj1 G0)) as (w' & E & G').
  rewrite E. cbn [settle]. exact (gframe_trans _ _ _ _ G0 G').
Qed.

Lemma do_unsubscribe_good w k uid ts : good w k -> gframe k w (do_unsubscribe cfg fp w k uid ts).
Proof.
  intros G. unfold do_unsubscribe. rewrite attempt_unsubscribe_eq.
  assert (G0 : gframe k w (set_subest w (est_apply_unsubs (w_subest w) ts))) by (apply gframe_same; auto).
  destruct (attempt1_good _ k (PUnsubscribe uid ts) uid (RUnsubscribe uid ts) (proj1 G0)) as (w' & E & G').
  rewrite E. cbn [settle]. exact (gframe_trans _ _ _ _ G0 G').
Qed.

Lemma run_entry_good w k e : good w k ->
  exists w', run_entry cfg fp w k e = (w', ADone) /\ gframe k w w'.
Proof.
  intros G. destruct e; cbn [run_entry].
  - apply attempt_publish_good; auto.
  - rewrite attempt_pubrel_eq. apply attempt1_good; auto.
  - rewrite attempt_subscribe_eq. apply attempt1_good; auto.
  - rewrite attempt_unsubscribe_eq. apply attempt1_good; auto.
  - eexists; split; [reflexivity | apply do_publish_good; auto].
  - eexists; split; [reflexivity | apply do_subscribe_good; auto].
  - eexists; split; [reflexivity | apply do_unsubscribe_good; auto].
Qed.

Lemma retry_loop_good k old : forall w, good w k -> w_hung w = false ->
  gframe k w (retry_loop cfg fp w k old).
Proof.
  induction old as [|e rest IH]; intros w G Hh; cbn [retry_loop].
  - apply gframe_same; auto.
  - destruct (run_entry_good w k e G) as (w1 & E & G1). rewrite E.
    assert (Hh1 : w_hung w1 = false) by (destruct G1 as (_ & _ & _ & H); congruence).
    rewrite Hh1. eapply gframe_trans; [exact G1 | apply IH; auto; apply G1].
Qed.

Lemma resub_fold_good k l : forall w0, good w0 k -> w_hung w0 = false -> w_retryq w0 = [] ->
  gframe k w0 (fold_left (fun w s => if w_hung w then w else task_subscribe cfg fp w k 0 [s]) l w0).
Proof.
  induction l as [|s l IH]; intros w0 G0 H0 Q0; cbn [fold_left].
  - apply gframe_same; auto.
  - rewrite H0. unfold task_subscribe at 2. rewrite Q0.
    pose proof (do_subscribe_good w0 k 0 [s] G0) as G1.
    eapply gframe_trans; [exact G1|]. destruct G1 as (G1 & E1 & E2 & E3). apply IH; auto; congruence.
Qed.

(* one task on a good connection: nothing fails, nothing is queued *)
Lemma exec_good w k t : good w k -> w_hung w = false ->
  good (exec_task cfg fp w k t) k /\ w_nrbe (exec_task cfg fp w k t) = w_nrbe w
  /\ w_hung (exec_task cfg fp w k t) = false
  /\ (t = TRetry -> w_retryq (exec_task cfg fp w k t) = [])
  /\ (w_retryq w = [] -> w_retryq (exec_task cfg fp w k t) = []).
Proof.
  intros G Hh. destruct t as [[m|uid ss|uid ts]| |]; cbn [exec_task].
  - unfold task_publish. destruct (w_retryq w) eqn:Eq.
    + destruct (do_publish_good w k m G) as (G1 & E1 & E2 & E3). splits; auto; try congruence; try discriminate.
    + destruct (0 <? p_qos m)%N; wproj; splits; auto; try discriminate.
  - unfold task_subscribe. destruct (w_retryq w) eqn:Eq.
    + destruct (do_subscribe_good w k uid ss G) as (G1 & E1 & E2 & E3). splits; auto; try congruence; try discriminate.
    + wproj; splits; auto; try discriminate.
  - unfold task_unsubscribe. destruct (w_retryq w) eqn:Eq.
    + destruct (do_unsubscribe_good w k uid ts G) as (G1 & E1 & E2 & E3). splits; auto; try congruence; try discriminate.
    + wproj; splits; auto; try discriminate.
  - unfold task_resubscribe.
    pose proof (resub_fold_good k (w_subest w) (set_retryq (set_subest w []) []) G Hh eq_refl)
      as (G1 & E1 & E2 & E3).
    remember (fold_left (fun w s => if w_hung w then w else task_subscribe cfg fp w k 0 [s])
                (w_subest w) (set_retryq (set_subest w []) [])) as w1.
    clear Heqw1. wproj. splits; auto; try congruence; try discriminate.
    rewrite E1. auto.
  - unfold task_retry. destruct (retry_loop_good k (w_retryq w) (set_retryq w [])) as (G1 & E1 & E2 & E3); auto.
    wproj. splits; auto; congruence.
Qed.

End Good.

Section Live.
Variable cfg : config.
Variable fp : fplan.

(* ---------- continuations without submissions ---------- *)
Definition reach_ns (s s' : sys) : Prop := exists ls, no_submit ls /\ run cfg fp s ls = Some s'.

Lemma reach_ns_refl s : reach_ns s s.
Proof. exists []. split; reflexivity. Qed.

Lemma reach_ns_trans s1 s2 s3 : reach_ns s1 s2 -> reach_ns s2 s3 -> reach_ns s1 s3.
Proof.
  intros (l1 & N1 & R1) (l2 & N2 & R2). exists (l1 ++ l2). split.
  - unfold no_submit in *. rewrite submits_app, N1, N2. reflexivity.
  - rewrite run_app, R1. exact R2.
Qed.

Lemma reach_ns_step s l s' : step cfg fp s l = Some s' -> submits [l] = [] -> reach_ns s s'.
Proof. intros H N. exists [l]. split; auto. cbn [run]. rewrite H. reflexivity. Qed.

Lemma wframe_trans w1 w2 w3 : wframe w1 w2 -> wframe w2 w3 -> wframe w1 w3.
Proof.
  unfold wframe. intros (A1 & A2 & A3 & A4 & A5 & A6) (B1 & B2 & B3 & B4 & B5 & B6). splits; congruence.
Qed.

(* [adv d s s']: s' is reached from s without submissions and without running a task; d clients were created *)
Definition adv (d : nat) (s s' : sys) : Prop :=
  reach_ns s s' /\ wframe (s_w s) (s_w s') /\ s_submitted s' = s_submitted s
  /\ length (w_clients (s_w s')) = length (w_clients (s_w s)) + d.

Lemma adv_refl s : adv 0 s s.
Proof. unfold adv. splits; auto. apply reach_ns_refl. apply wframe_refl. Qed.

Lemma adv_trans d1 d2 s1 s2 s3 : adv d1 s1 s2 -> adv d2 s2 s3 -> adv (d1 + d2) s1 s3.
Proof.
  intros (A1 & A2 & A3 & A4) (B1 & B2 & B3 & B4). unfold adv. splits.
  - eapply reach_ns_trans; eauto.
  - eapply wframe_trans; eauto.
  - congruence.
  - lia.
Qed.

Lemma adv_step d s l s' :
  step cfg fp s l = Some s' -> l <> LTask -> submits [l] = [] ->
  length (w_clients (s_w s')) = length (w_clients (s_w s)) + d -> adv d s s'.
Proof.
  intros H Hl Hn Hlen. unfold adv. splits; auto.
  - eapply reach_ns_step; eauto.
  - eapply step_other_wframe; eauto.
  - rewrite (step_submitted _ _ _ _ _ H), Hn, app_nil_r. reflexivity.
Qed.

Lemma chain d1 d2 s s1 (Q : sys -> Prop) :
  adv d1 s s1 -> (exists s', adv d2 s1 s' /\ Q s') -> exists s', adv (d1 + d2) s s' /\ Q s'.
Proof. intros A (s' & B & HQ). exists s'. split; auto. eapply adv_trans; eauto. Qed.

(* ---------- the enabled steps of the reconnect loop, with their results ---------- *)
Lemma step_dial s : s_pc s = RDial ->
  step cfg fp s (LDial true) =
  Some (set_pc (set_w s (set_clients (s_w s) (w_clients (s_w s) ++ [client_new])))
               (RSetClient (length (w_clients (s_w s))))).
Proof. intros H. cbn [step]. rewrite H. reflexivity. Qed.

Definition after_setclient (s : sys) (k : nat) : sys :=
  {| s_w := s_w s; s_cur := Some k; s_gen := S (s_gen s); s_cres := CrPending; s_taskq := s_taskq s;
     s_tmode := s_tmode s; s_pc := RConnBegin k; s_initialized := s_initialized s;
     s_submitted := s_submitted s; s_waits := s_waits s |}.

Lemma step_setclient s k : s_pc s = RSetClient k -> step cfg fp s LSetClient = Some (after_setclient s k).
Proof. intros H. cbn [step]. rewrite H. reflexivity. Qed.

Lemma step_connbegin s k : s_pc s = RConnBegin k ->
  step cfg fp s LConnBegin = Some (set_pc (set_w s (upd_client (s_w s) k client_init)) (RConnWait k)).
Proof. intros H. cbn [step]. rewrite H. reflexivity. Qed.

Lemma step_connend_closed s k : s_pc s = RConnWait k ->
  step cfg fp s (LConnEnd CoClosed) =
  Some (set_pc (set_cres (set_w s (upd_client (s_w s) k kill)) CrFailed) (RCloseFailed k)).
Proof. intros H. cbn [step]. rewrite H. reflexivity. Qed.

Lemma step_accept s k : s_pc s = RConnWait k -> cl_alive (get_client (s_w s) k) = true ->
  step cfg fp s (LConnEnd (CoAccept true)) =
  Some (set_pc (set_cres (set_w s (upd_client (s_w s) k client_accept)) CrOk) (RPushResub k true)).
Proof. intros H1 H2. cbn [step]. rewrite H1, H2. reflexivity. Qed.

Definition after_pushresub (s : sys) (k : nat) (sp : bool) : sys :=
  if s_initialized s && (negb sp || c_always_resub cfg)
  then set_taskq (set_pc s (RPushRetry k)) (s_taskq s ++ [TResub]) else set_pc s (RPushRetry k).

Lemma step_pushresub s k sp : s_pc s = RPushResub k sp -> step cfg fp s LPushResub = Some (after_pushresub s k sp).
Proof.
  intros H. cbn [step]. rewrite H. unfold after_pushresub.
  destruct (s_initialized s && (negb sp || c_always_resub cfg)); reflexivity.
Qed.

Definition after_pushretry (s : sys) (k : nat) : sys :=
  {| s_w := s_w s; s_cur := s_cur s; s_gen := s_gen s; s_cres := s_cres s; s_taskq := s_taskq s ++ [TRetry];
     s_tmode := s_tmode s; s_pc := RRun k; s_initialized := true;
     s_submitted := s_submitted s; s_waits := s_waits s |}.

Lemma step_pushretry s k : s_pc s = RPushRetry k -> step cfg fp s LPushRetry = Some (after_pushretry s k).
Proof. intros H. cbn [step]. rewrite H. reflexivity. Qed.

Lemma step_detect s k : s_pc s = RRun k -> cl_alive (get_client (s_w s) k) = false ->
  step cfg fp s LDetectEnd = Some (set_pc s RBackoff).
Proof. intros H1 H2. cbn [step]. rewrite H1, H2. reflexivity. Qed.

Lemma step_idlecut s k : s_pc s = RRun k -> cl_alive (get_client (s_w s) k) = true ->
  step cfg fp s LIdleCut = Some (set_w s (upd_client (s_w s) k kill)).
Proof. intros H1 H2. cbn [step]. rewrite H1, H2. reflexivity. Qed.

Lemma step_closefailed s k : s_pc s = RCloseFailed k ->
  step cfg fp s LCloseFailed = Some (set_pc (set_w s (upd_client (s_w s) k kill)) RBackoff).
Proof. intros H. cbn [step]. rewrite H. reflexivity. Qed.

Definition after_backoff (s : sys) : sys :=
  {| s_w := s_w s; s_cur := s_cur s; s_gen := s_gen s; s_cres := s_cres s; s_taskq := s_taskq s;
     s_tmode := s_tmode s; s_pc := RDial; s_initialized := s_initialized s;
     s_submitted := s_submitted s; s_waits := S (s_waits s) |}.

Lemma step_backoff s : s_pc s = RBackoff -> step cfg fp s LBackoff = Some (after_backoff s).
Proof. intros H. cbn [step]. rewrite H. reflexivity. Qed.

Ltac len_tac := unfold after_backoff, after_setclient, after_pushretry; sproj; wproj; rewrite ?upd_nth_length, ?app_length; cbn [length]; lia.
Ltac adv1 H := eapply adv_step; [exact H | discriminate | reflexivity | len_tac].

(* ---------- phase A: bring the reconnect loop to RDial ---------- *)
Definition at_dial (s : sys) : Prop := s_pc s = RDial.

Lemma A_backoff s : s_pc s = RBackoff -> exists s', adv 0 s s' /\ at_dial s'.
Proof. intros H. exists (after_backoff s). split; [adv1 (step_backoff s H) | reflexivity]. Qed.

Lemma A_closefailed s k : s_pc s = RCloseFailed k -> exists s', adv 0 s s' /\ at_dial s'.
Proof.
  intros H. apply (chain 0 0 s _ at_dial (ltac:(adv1 (step_closefailed s k H)))).
  apply A_backoff. reflexivity.
Qed.

Lemma A_connwait s k : s_pc s = RConnWait k -> exists s', adv 0 s s' /\ at_dial s'.
Proof.
  intros H. apply (chain 0 0 s _ at_dial (ltac:(adv1 (step_connend_closed s k H)))).
  eapply A_closefailed. reflexivity.
Qed.

Lemma A_connbegin s k : s_pc s = RConnBegin k -> exists s', adv 0 s s' /\ at_dial s'.
Proof.
  intros H. apply (chain 0 0 s _ at_dial (ltac:(adv1 (step_connbegin s k H)))).
  eapply A_connwait. reflexivity.
Qed.

Lemma A_setclient s k : s_pc s = RSetClient k -> exists s', adv 0 s s' /\ at_dial s'.
Proof.
  intros H. apply (chain 0 0 s _ at_dial (ltac:(adv1 (step_setclient s k H)))).
  eapply A_connbegin. reflexivity.
Qed.

Lemma A_run_dead s k : s_pc s = RRun k -> cl_alive (get_client (s_w s) k) = false ->
  exists s', adv 0 s s' /\ at_dial s'.
Proof.
  intros H Ha. apply (chain 0 0 s _ at_dial (ltac:(adv1 (step_detect s k H Ha)))).
  apply A_backoff. reflexivity.
Qed.

Lemma A_run s k : s_pc s = RRun k -> exists s', adv 0 s s' /\ at_dial s'.
Proof.
  intros H. destruct (cl_alive (get_client (s_w s) k)) eqn:Ha.
  - apply (chain 0 0 s _ at_dial (ltac:(adv1 (step_idlecut s k H Ha)))).
    apply (A_run_dead _ k); [exact H|]. unfold get_client. sproj; wproj. apply nth_upd_nth_kill_alive.
  - eapply A_run_dead; eauto.
Qed.

Lemma A_pushretry s k : s_pc s = RPushRetry k -> exists s', adv 0 s s' /\ at_dial s'.
Proof.
  intros H. apply (chain 0 0 s _ at_dial (ltac:(adv1 (step_pushretry s k H)))).
  eapply A_run. reflexivity.
Qed.

Lemma A_pushresub s k sp : s_pc s = RPushResub k sp -> exists s', adv 0 s s' /\ at_dial s'.
Proof.
  intros H.
  assert (Hadv : adv 0 s (after_pushresub s k sp)).
  { eapply adv_step; [exact (step_pushresub s k sp H) | discriminate | reflexivity |].
    unfold after_pushresub. destruct (s_initialized s && (negb sp || c_always_resub cfg)); len_tac. }
  apply (chain 0 0 s _ at_dial Hadv).
  apply (A_pushretry _ k). unfold after_pushresub.
  destruct (s_initialized s && (negb sp || c_always_resub cfg)); reflexivity.
Qed.

Lemma to_dial s : exists s', adv 0 s s' /\ at_dial s'.
Proof.
  destruct (s_pc s) eqn:H.
  - exists s. split; [apply adv_refl | exact H].
  - eapply A_setclient; eauto.
  - eapply A_connbegin; eauto.
  - eapply A_connwait; eauto.
  - eapply A_pushresub; eauto.
  - eapply A_pushretry; eauto.
  - eapply A_run; eauto.
  - eapply A_closefailed; eauto.
  - eapply A_backoff; eauto.
Qed.

(* ---------- phase B: use up m connection numbers ---------- *)
Lemma burn_one s : at_dial s -> exists s', adv 1 s s' /\ at_dial s'.
Proof.
  intros H. apply (chain 1 0 s _ at_dial (ltac:(adv1 (step_dial s H)))).
  eapply A_setclient. reflexivity.
Qed.

Lemma burn m : forall s, at_dial s -> exists s', adv m s s' /\ at_dial s'.
Proof.
  induction m; intros s H.
  - exists s. split; [apply adv_refl | exact H].
  - destruct (burn_one s H) as (s1 & A1 & H1). apply (chain 1 m s s1 at_dial A1). apply IHm. exact H1.
Qed.

(* ---------- phase C: a new connection, accepted with session present ---------- *)
Definition fresh : client := {| cl_inited := true; cl_alive := true; cl_accepted := true; cl_sent := 0 |}.

Definition connected (s : sys) (n : nat) : Prop :=
  s_pc s = RRun n /\ s_cur s = Some n /\ s_cres s = CrOk /\ 0 < s_gen s
  /\ get_client (s_w s) n = fresh /\ exists q0, s_taskq s = q0 ++ [TRetry].

Lemma get_upd_same w k f : k < length (w_clients w) -> get_client (upd_client w k f) k = f (get_client w k).
Proof. intros H. unfold get_client, upd_client. wproj. apply nth_upd_nth_same. exact H. Qed.

Lemma C_pushretry s n : s_pc s = RPushRetry n -> s_cur s = Some n -> s_cres s = CrOk -> 0 < s_gen s ->
  get_client (s_w s) n = fresh -> exists s', adv 0 s s' /\ connected s' n.
Proof.
  intros H H1 H2 H3 H4. exists (after_pushretry s n). split; [adv1 (step_pushretry s n H)|].
  unfold connected, after_pushretry; sproj. splits; auto. eauto.
Qed.

Lemma C_pushresub s n : s_pc s = RPushResub n true -> s_cur s = Some n -> s_cres s = CrOk -> 0 < s_gen s ->
  get_client (s_w s) n = fresh -> exists s', adv 0 s s' /\ connected s' n.
Proof.
  intros H H1 H2 H3 H4.
  assert (Hadv : adv 0 s (after_pushresub s n true)).
  { eapply adv_step; [exact (step_pushresub s n true H) | discriminate | reflexivity |].
    unfold after_pushresub. destruct (s_initialized s && (negb true || c_always_resub cfg)); len_tac. }
  apply (chain 0 0 s _ (fun s' => connected s' n) Hadv).
  unfold after_pushresub.
  destruct (s_initialized s && (negb true || c_always_resub cfg)); apply C_pushretry; auto.
Qed.

Lemma C_connwait s n : s_pc s = RConnWait n -> s_cur s = Some n -> 0 < s_gen s ->
  get_client (s_w s) n = client_init client_new -> exists s', adv 0 s s' /\ connected s' n.
Proof.
  intros H H1 H3 H4.
  assert (Ha : cl_alive (get_client (s_w s) n) = true) by (rewrite H4; reflexivity).
  apply (chain 0 0 s _ (fun s' => connected s' n) (ltac:(adv1 (step_accept s n H Ha)))).
  apply C_pushresub; sproj; auto.
  rewrite get_upd_same by (apply alive_lt; exact Ha). rewrite H4. reflexivity.
Qed.

Lemma C_connbegin s n : s_pc s = RConnBegin n -> s_cur s = Some n -> 0 < s_gen s ->
  get_client (s_w s) n = client_new -> exists s', adv 0 s s' /\ connected s' n.
Proof.
  intros H H1 H3 H4.
  assert (Ha : cl_alive (get_client (s_w s) n) = true) by (rewrite H4; reflexivity).
  apply (chain 0 0 s _ (fun s' => connected s' n) (ltac:(adv1 (step_connbegin s n H)))).
  apply C_connwait; sproj; auto.
  rewrite get_upd_same by (apply alive_lt; exact Ha). rewrite H4. reflexivity.
Qed.

Lemma C_setclient s n : s_pc s = RSetClient n -> get_client (s_w s) n = client_new ->
  exists s', adv 0 s s' /\ connected s' n.
Proof.
  intros H H4.
  apply (chain 0 0 s _ (fun s' => connected s' n) (ltac:(adv1 (step_setclient s n H)))).
  apply C_connbegin; unfold after_setclient; sproj; auto. lia.
Qed.

Lemma connect s : at_dial s -> exists s', adv 1 s s' /\ connected s' (length (w_clients (s_w s))).
Proof.
  intros H.
  apply (chain 1 0 s _ (fun s' => connected s' (length (w_clients (s_w s)))) (ltac:(adv1 (step_dial s H)))).
  apply C_setclient; sproj; auto. unfold get_client. wproj. apply nth_middle.
Qed.

(* ---------- phase D: the task goroutine observes the new connection ---------- *)
Definition ready (s : sys) (n : nat) : Prop :=
  s_pc s = RRun n /\ s_cur s = Some n /\ s_tmode s = TReady (s_gen s) /\ good fp (s_w s) n
  /\ w_nrbe (s_w s) = false /\ w_hung (s_w s) = false.

Lemma observe_waiting s n : s_pc s = RRun n -> s_cur s = Some n -> s_cres s = CrOk -> 0 < s_gen s ->
  good fp (s_w s) n -> w_nrbe (s_w s) = false -> w_hung (s_w s) = false -> s_tmode s = TWaiting ->
  exists s', reach_ns s s' /\ ready s' n /\ s_taskq s' = s_taskq s /\ s_submitted s' = s_submitted s
             /\ s_w s' = s_w s.
Proof.
  intros H1 H2 H3 H4 H5 H6 H7 Hm. exists (set_tmode s (TReady (s_gen s))). splits; auto.
  - apply (reach_ns_step s (LObserve (s_gen s))); [|reflexivity].
    cbn [step]. rewrite Hm, H3.
    assert (E : (0 <? s_gen s) && ((s_gen s <? s_gen s) || (s_gen s =? s_gen s) && true) = true) by lia.
    rewrite E. reflexivity.
  - unfold ready; sproj. splits; auto.
Qed.

Lemma get_ready s n : s_pc s = RRun n -> s_cur s = Some n -> s_cres s = CrOk -> 0 < s_gen s ->
  good fp (s_w s) n -> w_nrbe (s_w s) = false -> w_hung (s_w s) = false ->
  exists s', reach_ns s s' /\ ready s' n /\ s_taskq s' = s_taskq s /\ s_submitted s' = s_submitted s
             /\ s_w s' = s_w s.
Proof.
  intros H1 H2 H3 H4 H5 H6 H7. destruct (s_tmode s) as [|g] eqn:Hm.
  - apply observe_waiting; auto.
  - destruct (g =? s_gen s) eqn:Eg.
    + apply Nat.eqb_eq in Eg. subst g. exists s. splits; auto. apply reach_ns_refl.
      unfold ready. splits; auto.
    + assert (Hs : step cfg fp s LTask = Some (set_tmode s TWaiting)).
      { cbn [step]. rewrite H7, Hm, Eg. reflexivity. }
      destruct (observe_waiting (set_tmode s TWaiting) n) as (s' & R & Hr & E1 & E2 & E3); sproj; auto.
      exists s'. splits; auto. eapply reach_ns_trans; [|exact R].
      eapply reach_ns_step; [exact Hs | reflexivity].
Qed.

(* ---------- phase E: drain the task queue on the good connection ---------- *)
Lemma drain_step s n t q : ready s n -> s_taskq s = t :: q ->
  exists s', step cfg fp s LTask = Some s' /\ ready s' n /\ s_taskq s' = q
    /\ s_submitted s' = s_submitted s
    /\ (t = TRetry -> w_retryq (s_w s') = [])
    /\ (w_retryq (s_w s) = [] -> w_retryq (s_w s') = []).
Proof.
  intros (H1 & H2 & H3 & H4 & H5 & H6) Hq.
  destruct (exec_good cfg fp (s_w s) n t H4 H6) as (G1 & G2 & G3 & G4 & G5).
  exists (set_w (set_taskq s q) (exec_task cfg fp (s_w s) n t)). splits; auto.
  - cbn [step]. rewrite H6, H3, Nat.eqb_refl, Hq, H2. cbn [negb]. rewrite G2, H5. reflexivity.
  - unfold ready; sproj. splits; auto. congruence.
Qed.

Lemma drain_all q : forall s n, ready s n -> s_taskq s = q ->
  exists s', run cfg fp s (repeat LTask (length q)) = Some s' /\ ready s' n /\ s_taskq s' = []
    /\ s_submitted s' = s_submitted s
    /\ ((exists q0, q = q0 ++ [TRetry]) \/ w_retryq (s_w s) = [] -> w_retryq (s_w s') = []).
Proof.
  induction q as [|t q IH]; intros s n Hr Hq; cbn [length repeat run].
  - exists s. splits; auto. intros [([|x q0] & E)|E]; auto; discriminate.
  - destruct (drain_step s n t q Hr Hq) as (s1 & Hs & Hr1 & Hq1 & Hsub1 & Ht & He).
    rewrite Hs. destruct (IH s1 n Hr1 Hq1) as (s' & R & Hr' & Hq' & Hsub' & He').
    exists s'. splits; auto; [congruence|].
    intros Hc. apply He'. destruct Hc as [(q0 & E)|E]; [|right; auto].
    destruct q0 as [|x q0]; cbn [List.app] in E; injection E as -> ->.
    + right. auto.
    + left. eauto.
Qed.

Lemma submits_repeat_task m : submits (repeat LTask m) = [].
Proof. induction m; cbn [repeat submits]; auto. Qed.

End Live.

(* ---------- C01 liveness ---------- *)
Lemma eventually_acked : C01_eventually_acked_stmt.
Proof.
  unfold C01_eventually_acked_stmt. intros cfg fp ls s K Hr Hwf Hrel Hh.
  destruct (reach_inv cfg fp ls s Hr Hwf) as (_ & Hn & _).
  destruct (to_dial cfg fp s) as (sA & AA & HA).
  destruct (burn cfg fp K sA HA) as (sB & AB & HB).
  destruct (connect cfg fp sB HB) as (sC & AC & HC).
  set (n := length (w_clients (s_w sB))) in *.
  assert (HKn : K <= n) by (destruct AB as (_ & _ & _ & E); unfold n; lia).
  pose proof (adv_trans _ _ _ _ _ _ _ (adv_trans _ _ _ _ _ _ _ AA AB) AC) as (R & F & Esub & _).
  destruct F as (_ & _ & _ & Fh & _ & Fn).
  destruct HC as (C1 & C2 & C3 & C4 & C5 & q0 & C6).
  assert (Hgood : good fp (s_w sC) n).
  { unfold good. rewrite C5. cbn [fresh cl_inited cl_alive cl_accepted cl_sent]. splits; auto. }
  destruct (get_ready cfg fp sC n C1 C2 C3 C4 Hgood) as (sD & RD & HrD & EqD & EsubD & EwD); try congruence.
  destruct (drain_all cfg fp (s_taskq sD) sD n HrD eq_refl) as (sE & RE & HrE & EqE & EsubE & ErE).
  destruct (reach_ns_trans _ _ _ _ _ R RD) as (l12 & N12 & R12).
  assert (Hq : w_retryq (s_w sE) = []) by (apply ErE; left; exists q0; congruence).
  destruct HrE as (E1 & E2 & E3 & E4 & E5 & E6).
  set (ls' := l12 ++ repeat LTask (length (s_taskq sD))).
  assert (Nls : no_submit ls').
  { unfold no_submit, ls' in *. rewrite submits_app, N12, submits_repeat_task. reflexivity. }
  assert (Rls : run cfg fp s ls' = Some sE) by (unfold ls'; rewrite run_app, R12; exact RE).
  exists ls', sE. splits; auto.
  - unfold quiescent. splits; auto.
    + unfold cur_alive. rewrite E2. apply E4.
    + eauto.
  - congruence.
  - intros o Ho Hna.
    assert (Rall : run cfg fp sys0 (ls ++ ls') = Some sE) by (rewrite run_app, Hr; exact Rls).
    assert (Wall : wf_labels (ls ++ ls')).
    { unfold wf_labels, no_submit in *. rewrite submits_app, Nls, app_nil_r. exact Hwf. }
    destruct (no_loss cfg fp (ls ++ ls') sE Rall Wall E6) as (Hcov & _ & _).
    assert (Ho' : In o (s_submitted sE)) by congruence.
    destruct (Hcov o Ho' Hna) as [Ha|Hp]; auto.
    unfold pending_uids in Hp. rewrite Hq, EqE in Hp. contradiction.
Qed.

(* ---------- non-vacuity: a concrete run satisfying the hypotheses of the four theorems ----------
   ResponseTimeout configured; connection 0 silently withholds the acknowledgement of its second
   packet; connections 1, 2, ... are fault-free.  A QoS 1 publish (uid 1) is submitted before the
   first connection and acknowledged on it; a subscribe (uid 2) and a QoS 2 publish (uid 3) follow;
   the SUBACK never comes: time-out, the connection is closed, the subscribe is kept in the retry
   queue, the publish is queued behind it; both are carried out on connection 1. *)
Definition ex_cfg : config := {| c_method_b := false; c_always_resub := false; c_timeout := true |}.
Definition ex_fp : fplan := fp_of_list [(0, 1, FSilentAck)].
Definition ex_m1 : pubreq :=
  {| p_uid := 1; p_qos := 1%N; p_retain := false; p_topic := [116%N]; p_payload := [1%N] |}.
Definition ex_m3 : pubreq :=
  {| p_uid := 3; p_qos := 2%N; p_retain := false; p_topic := [116%N]; p_payload := [2%N] |}.
Definition ex_connect (sp : bool) : list label :=
  [LDial true; LSetClient; LConnBegin; LConnEnd (CoAccept sp); LPushResub; LPushRetry].
(* up to the moment before the subscribe is attempted *)
Definition ex_ls1 : list label :=
  [LSubmit (UPub ex_m1)] ++ ex_connect false ++
  [LObserve 1; LTask; LTask; LSubmit (USub 2 [([116%N], 1%N)]); LSubmit (UPub ex_m3)].
(* the subscribe times out *)
Definition ex_ls2 : list label := ex_ls1 ++ [LTask].
(* reconnect and retry *)
Definition ex_rest : list label :=
  [LDetectEnd; LBackoff] ++ ex_connect true ++ [LObserve 2; LTask; LTask].

Example ex_reliable : reliable_from ex_fp 1.
Proof. intros k i Hk. destruct k; [lia | reflexivity]. Qed.

(* hypotheses of C01_no_loss / C01_eventually_acked / C18_no_hang hold of a run with a fault, with
   one request acknowledged and two pending *)
Example ex_hyps :
  exists s, run ex_cfg ex_fp sys0 ex_ls2 = Some s /\ wf_labels ex_ls2 /\ c_timeout ex_cfg = true
    /\ w_hung (s_w s) = false
    /\ final_acked (wire_of s) = [1] /\ pending_uids s = [2; 3]
    /\ count_timeouts (w_errs (s_w s)) = 1 /\ cur_alive s = false.
Proof. eexists. split; [vm_compute; reflexivity|]. vm_compute. splits; reflexivity. Qed.

(* ... and the continuation promised by C01_eventually_acked exists for it *)
Example ex_recovers :
  exists s s', run ex_cfg ex_fp sys0 ex_ls2 = Some s /\ no_submit ex_rest
    /\ run ex_cfg ex_fp s ex_rest = Some s'
    /\ final_acked (wire_of s') = [1; 2; 3] /\ pending_uids s' = [] /\ cur_alive s' = true.
Proof.
  eexists. eexists. split; [vm_compute; reflexivity|]. split; [reflexivity|].
  split; [vm_compute; reflexivity|]. vm_compute. splits; reflexivity.
Qed.

(* hypotheses of C18_timeout_reaction: the task step in which the subscribe times out *)
Example ex_timeout_step :
  exists s s', run ex_cfg ex_fp sys0 ex_ls1 = Some s /\ c_timeout ex_cfg = true
    /\ step ex_cfg ex_fp s LTask = Some s'
    /\ count_timeouts (w_errs (s_w s)) = 0 /\ count_timeouts (w_errs (s_w s')) = 1.
Proof.
  eexists. eexists. split; [vm_compute; reflexivity|]. split; [reflexivity|].
  split; [vm_compute; reflexivity|]. vm_compute. splits; reflexivity.
Qed.
