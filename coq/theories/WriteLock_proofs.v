(* WriteLock_proofs.v — C10 (a): under muWrite and a conforming whole-packet writer the wire is a
   concatenation of whole packets, for any number of threads and any schedule. *)
From MQ Require Import Base WriteLock.

(* ---------- set_nth ---------- *)
Lemma set_nth_length {A} n (x : A) l : length (set_nth n x l) = length l.
Proof. revert n; induction l as [|y l IH]; intros [|n]; cbn; auto. Qed.

Lemma nth_error_set_nth_eq {A} n (x : A) l : n < length l -> nth_error (set_nth n x l) n = Some x.
Proof. revert n; induction l as [|y l IH]; intros [|n] H; cbn in *; try lia; auto. apply IH; lia. Qed.

Lemma nth_error_set_nth_neq {A} n m (x : A) l : n <> m -> nth_error (set_nth n x l) m = nth_error l m.
Proof.
  revert n m; induction l as [|y l IH]; intros [|n] [|m] H; cbn; auto; try congruence.
Qed.

Lemma map_set_nth {A B} (f : A -> B) n x y l :
  nth_error l n = Some y -> f x = f y -> map f (set_nth n x l) = map f l.
Proof.
  revert n; induction l as [|z l IH]; intros [|n] H E; cbn in *; try discriminate; auto.
  - injection H as ->. now rewrite E.
  - f_equal. now apply IH.
Qed.

Lemma nth_error_lt {A} (l : list A) n x : nth_error l n = Some x -> n < length l.
Proof. intros H. apply nth_error_Some. congruence. Qed.

Lemma NoDup_snoc {A} (l : list A) x : NoDup l -> ~ In x l -> NoDup (l ++ [x]).
Proof.
  induction l as [|y l IH]; cbn; intros N H.
  - constructor; auto.
  - inversion N; subst. constructor.
    + rewrite in_app_iff. cbn. intros [?|[?|[]]]; [contradiction | subst; apply H; now left].
    + apply IH; auto.
Qed.

(* ---------- contributions ---------- *)
Definition contrib (th : thread) : list N :=
  match t_pc th with
  | InWrite _ k => firstn k (t_pkt th)
  | Looping i => firstn i (t_pkt th)
  | Unlocking true | Done => t_pkt th
  | _ => []
  end.
Definition contrib_at (thr : list thread) (t : nat) : list N :=
  match nth_error thr t with Some th => contrib th | None => [] end.

Definition fin_at (thr : list thread) (t : nat) : Prop :=
  exists th, nth_error thr t = Some th /\ (t_pc th = Done \/ t_pc th = Failed).

Definition in_cs (p : pc) : Prop :=
  match p with Looping _ | InWrite _ _ | Unlocking _ => True | _ => False end.

Definition hold_ok (th : thread) : Prop :=
  match t_pc th with
  | Looping i => i = 0 \/ i = length (t_pkt th)
  | InWrite i k => i = 0 /\ k <= length (t_pkt th)
  | Unlocking _ => True
  | _ => False
  end.

Record Inv (pkts : list (list N)) (g : gstate) : Prop := {
  inv_pkts : map t_pkt (g_thr g) = pkts;
  inv_nodup : NoDup (g_order g);
  inv_cs : forall t th, nth_error (g_thr g) t = Some th -> in_cs (t_pc th) -> g_holder g = Some t;
  inv_nopanic : forall t th, nth_error (g_thr g) t = Some th -> t_pc th <> Panicked;
  inv_main :
    match g_holder g with
    | None => Forall (fin_at (g_thr g)) (g_order g) /\
              g_out g = concat (map (contrib_at (g_thr g)) (g_order g))
    | Some h => exists front th, g_order g = front ++ [h] /\ nth_error (g_thr g) h = Some th /\
                  hold_ok th /\ Forall (fin_at (g_thr g)) front /\
                  g_out g = concat (map (contrib_at (g_thr g)) front) ++ contrib th
    end }.

Lemma contrib_at_set_other thr t x l :
  ~ In t l -> map (contrib_at (set_nth t x thr)) l = map (contrib_at thr) l.
Proof.
  intros H. apply map_ext_in. intros a Ha. unfold contrib_at.
  rewrite nth_error_set_nth_neq; auto. intros ->. contradiction.
Qed.

Lemma fin_at_set_other thr t x l :
  ~ In t l -> Forall (fin_at thr) l -> Forall (fin_at (set_nth t x thr)) l.
Proof.
  intros H F. rewrite Forall_forall in *. intros a Ha. destruct (F a Ha) as [th [E P]].
  exists th. split; auto. rewrite nth_error_set_nth_neq; auto. intros ->. contradiction.
Qed.

Lemma fin_not_in thr t th l :
  nth_error thr t = Some th -> t_pc th <> Done -> t_pc th <> Failed -> Forall (fin_at thr) l -> ~ In t l.
Proof.
  intros E N1 N2 F I. rewrite Forall_forall in F. destruct (F t I) as [th' [E' [P|P]]];
    rewrite E in E'; injection E' as <-; contradiction.
Qed.

Lemma init_inv pkts : Inv pkts (init pkts).
Proof.
  constructor; cbn.
  - rewrite map_map. cbn. apply map_id.
  - constructor.
  - intros t th H. apply nth_error_In in H. apply in_map_iff in H as [p [<- _]]. cbn. tauto.
  - intros t th H. apply nth_error_In in H. apply in_map_iff in H as [p [<- _]]. cbn. discriminate.
  - split; constructor.
Qed.

(* a step of a thread other than the lock holder that stays outside the critical section *)
Lemma inv_outside pkts g t th p :
  Inv pkts g -> nth_error (g_thr g) t = Some th ->
  (t_pc th = Idle) -> p = WaitLock ->
  Inv pkts (set_pc g t th p).
Proof.
  intros I E Hpc ->. destruct I as [I1 I2 I3 I4 I5].
  assert (L : t < length (g_thr g)) by (eapply nth_error_lt; eauto).
  constructor; cbn.
  - erewrite map_set_nth; eauto.
  - exact I2.
  - intros t' th' E' C. destruct (Nat.eq_dec t t') as [<-|N].
    + rewrite nth_error_set_nth_eq in E' by auto. injection E' as <-. cbn in C. contradiction.
    + rewrite nth_error_set_nth_neq in E' by auto. eauto.
  - intros t' th' E'. destruct (Nat.eq_dec t t') as [<-|N].
    + rewrite nth_error_set_nth_eq in E' by auto. injection E' as <-. cbn. discriminate.
    + rewrite nth_error_set_nth_neq in E' by auto. eauto.
  - destruct (g_holder g) as [h|] eqn:Hh.
    + destruct I5 as [front [thh [O [Eh [Hok [F Out]]]]]].
      assert (t <> h). { intros ->. rewrite E in Eh. injection Eh as <-. unfold hold_ok in Hok. rewrite Hpc in Hok. contradiction. }
      assert (NI : ~ In t front). { eapply fin_not_in; eauto; rewrite Hpc; discriminate. }
      exists front, thh. repeat split; auto.
      * rewrite nth_error_set_nth_neq; auto.
      * apply fin_at_set_other; auto.
      * rewrite contrib_at_set_other; auto.
    + destruct I5 as [F Out].
      assert (NI : ~ In t (g_order g)). { eapply fin_not_in; eauto; rewrite Hpc; discriminate. }
      split. apply fin_at_set_other; auto. rewrite contrib_at_set_other; auto.
Qed.

(* a step of the lock holder that stays inside the critical section *)
Lemma inv_inside pkts g h th p out' calls' :
  Inv pkts g -> g_holder g = Some h -> nth_error (g_thr g) h = Some th ->
  in_cs p -> hold_ok (mkThread (t_pkt th) p) ->
  out' = g_out g ++ skipn (length (contrib th)) (contrib (mkThread (t_pkt th) p)) ->
  firstn (length (contrib th)) (contrib (mkThread (t_pkt th) p)) = contrib th ->
  Inv pkts (mkG (g_holder g) out' calls' (g_order g) (set_nth h (mkThread (t_pkt th) p) (g_thr g))).
Proof.
  intros I Hh E C Hok' -> Hpre. destruct I as [I1 I2 I3 I4 I5]. rewrite Hh at 1.
  assert (L : h < length (g_thr g)) by (eapply nth_error_lt; eauto).
  rewrite Hh in I5. destruct I5 as [front [thh [O [Eh [Hok [F Out]]]]]].
  rewrite E in Eh. injection Eh as <-.
  assert (NI : ~ In h front).
  { rewrite O in I2. apply NoDup_remove_2 in I2. rewrite app_nil_r in I2. exact I2. }
  constructor; cbn.
  - erewrite map_set_nth; eauto.
  - exact I2.
  - intros t' th' E' C'. destruct (Nat.eq_dec h t') as [<-|N]; auto.
    rewrite nth_error_set_nth_neq in E' by auto. rewrite <- Hh. eauto.
  - intros t' th' E'. destruct (Nat.eq_dec h t') as [<-|N].
    + rewrite nth_error_set_nth_eq in E' by auto. injection E' as <-. cbn. destruct p; cbn in C; try contradiction; discriminate.
    + rewrite nth_error_set_nth_neq in E' by auto. eauto.
  - exists front, (mkThread (t_pkt th) p). repeat split; auto.
    + apply nth_error_set_nth_eq; auto.
    + apply fin_at_set_other; auto.
    + rewrite contrib_at_set_other by auto. rewrite Out, <- app_assoc. f_equal.
      rewrite <- Hpre at 1. apply firstn_skipn.
Qed.

Lemma firstn_S_nth {A} (l : list A) k x : nth_error l k = Some x -> firstn (S k) l = firstn k l ++ [x].
Proof.
  revert k; induction l as [|y l IH]; intros [|k] H; cbn in *; try discriminate.
  - now injection H as ->.
  - f_equal. now apply IH.
Qed.

Lemma chunk_0 b : chunk b 0 = b.
Proof. unfold chunk, slice. cbn. rewrite Nat.sub_0_r, Nat.sub_0_r. apply firstn_all. Qed.

Lemma skipn_firstn_same {A} (l : list A) k : k <= length l -> skipn (length (firstn k l)) (firstn k l) = [].
Proof. intros. apply skipn_all. Qed.

Lemma step_inv pkts g lb g' : Inv pkts g -> step true true g lb = Some g' -> Inv pkts g'.
Proof.
  intros I S. destruct lb as [t a]. unfold step in S.
  destruct (nth_error (g_thr g) t) as [th|] eqn:E; [|discriminate].
  assert (L : t < length (g_thr g)) by (eapply nth_error_lt; eauto).
  destruct (t_pc th) eqn:Hpc; destruct a; try discriminate.
  - (* Idle -> WaitLock *)
    injection S as <-. eapply inv_outside; eauto.
  - (* WaitLock: acquire *)
    destruct (g_holder g) eqn:Hh; [discriminate|]. injection S as <-. cbn.
    destruct I as [I1 I2 I3 I4 I5]. rewrite Hh in I5. destruct I5 as [F Out].
    assert (NI : ~ In t (g_order g)). { eapply fin_not_in; eauto; rewrite Hpc; discriminate. }
    constructor; cbn.
    + erewrite map_set_nth; eauto.
    + apply NoDup_snoc; auto.
    + intros t' th' E' C'. destruct (Nat.eq_dec t t') as [<-|N]; auto.
      rewrite nth_error_set_nth_neq in E' by auto. specialize (I3 _ _ E' C'). congruence.
    + intros t' th' E'. destruct (Nat.eq_dec t t') as [<-|N].
      * rewrite nth_error_set_nth_eq in E' by auto. injection E' as <-. cbn. discriminate.
      * rewrite nth_error_set_nth_neq in E' by auto. eauto.
    + exists (g_order g), (mkThread (t_pkt th) (Looping 0)). repeat split; auto.
      * apply nth_error_set_nth_eq; auto.
      * cbn. now left.
      * apply fin_at_set_other; auto.
      * rewrite contrib_at_set_other by auto. cbn. now rewrite app_nil_r.
  - (* Looping i: loop head *)
    pose proof (inv_cs _ _ I _ _ E) as Hh. rewrite Hpc in Hh. specialize (Hh Logic.I).
    pose proof (inv_main _ _ I) as M. rewrite Hh in M. destruct M as [front [thh [O [Eh [Hok _]]]]].
    rewrite E in Eh. injection Eh as <-. unfold hold_ok in Hok. rewrite Hpc in Hok.
    destruct (i <? length (t_pkt th)) eqn:Hlt.
    + assert (i = 0) as -> by (apply Nat.ltb_lt in Hlt; lia).
      cbn [Nat.leb] in S. injection S as <-.
      unfold set_pc. cbn [g_holder g_out g_calls g_order g_thr].
      eapply inv_inside; eauto; cbn; auto.
      * split; [reflexivity | lia].
      * unfold contrib. rewrite Hpc. cbn. now rewrite app_nil_r.
      * unfold contrib. rewrite Hpc. reflexivity.
    + injection S as <-. unfold set_pc.
      assert (Hi : i = length (t_pkt th)) by (apply Nat.ltb_ge in Hlt; lia).
      eapply inv_inside; eauto; cbn; auto.
      * unfold contrib. rewrite Hpc. cbn. rewrite Hi, firstn_all, skipn_all, app_nil_r. reflexivity.
      * unfold contrib. rewrite Hpc. cbn. rewrite Hi, firstn_all, firstn_all. reflexivity.
  - (* InWrite: the transport emits one more byte *)
    pose proof (inv_cs _ _ I _ _ E) as Hh. rewrite Hpc in Hh. specialize (Hh Logic.I).
    pose proof (inv_main _ _ I) as M. rewrite Hh in M. destruct M as [front [thh [O [Eh [Hok _]]]]].
    rewrite E in Eh. injection Eh as <-. unfold hold_ok in Hok. rewrite Hpc in Hok. destruct Hok as [-> Hk].
    rewrite chunk_0 in S. destruct (nth_error (t_pkt th) k) as [x|] eqn:Ex; [|discriminate].
    injection S as <-. unfold set_pc. cbn [g_holder g_out g_calls g_order g_thr].
    assert (k < length (t_pkt th)) by (eapply nth_error_lt; eauto).
    eapply inv_inside; [exact I | exact Hh | exact E | exact Logic.I | | | ].
    + cbn. split; [reflexivity | lia].
    + f_equal. unfold contrib. rewrite Hpc. cbn [t_pc t_pkt].
      rewrite (firstn_S_nth _ _ _ Ex), firstn_length_le by lia.
      rewrite skipn_app, skipn_all2 by (rewrite firstn_length_le; lia).
      rewrite firstn_length_le by lia. now rewrite Nat.sub_diag.
    + unfold contrib. rewrite Hpc. cbn [t_pc t_pkt].
      rewrite (firstn_S_nth _ _ _ Ex), firstn_length_le by lia.
      rewrite firstn_app, firstn_length_le, Nat.sub_diag by lia. cbn. rewrite app_nil_r.
      apply firstn_all2. rewrite firstn_length_le; lia.
  - (* InWrite: Write returns (len, nil) *)
    pose proof (inv_cs _ _ I _ _ E) as Hh. rewrite Hpc in Hh. specialize (Hh Logic.I).
    pose proof (inv_main _ _ I) as M. rewrite Hh in M. destruct M as [front [thh [O [Eh [Hok _]]]]].
    rewrite E in Eh. injection Eh as <-. unfold hold_ok in Hok. rewrite Hpc in Hok. destruct Hok as [-> Hk].
    rewrite chunk_0 in S. cbn [andb] in S.
    destruct (k =? length (t_pkt th)) eqn:Ek; [|discriminate]. apply Nat.eqb_eq in Ek.
    injection S as <-. unfold set_pc.
    eapply inv_inside; eauto; cbn; auto.
    + unfold contrib. rewrite Hpc. cbn. rewrite skipn_all, app_nil_r. reflexivity.
    + unfold contrib. rewrite Hpc. cbn. rewrite Ek, firstn_all, firstn_all. reflexivity.
  - (* InWrite: Write returns (0, err) *)
    pose proof (inv_cs _ _ I _ _ E) as Hh. rewrite Hpc in Hh. specialize (Hh Logic.I).
    pose proof (inv_main _ _ I) as M. rewrite Hh in M. destruct M as [front [thh [O [Eh [Hok _]]]]].
    rewrite E in Eh. injection Eh as <-. unfold hold_ok in Hok. rewrite Hpc in Hok. destruct Hok as [-> Hk].
    cbn [andb] in S. destruct (k =? 0) eqn:Ek; [|discriminate]. apply Nat.eqb_eq in Ek. subst k.
    injection S as <-. unfold set_pc.
    eapply inv_inside; eauto; cbn; auto.
    + unfold contrib. rewrite Hpc. cbn. now rewrite app_nil_r.
    + unfold contrib. rewrite Hpc. reflexivity.
  - (* Unlocking: release *)
    pose proof (inv_cs _ _ I _ _ E) as Hh. rewrite Hpc in Hh. specialize (Hh Logic.I).
    destruct I as [I1 I2 I3 I4 I5]. rewrite Hh in I5. destruct I5 as [front [thh [O [Eh [Hok [F Out]]]]]].
    rewrite E in Eh. injection Eh as <-. injection S as <-.
    assert (NI : ~ In t front).
    { rewrite O in I2. apply NoDup_remove_2 in I2. rewrite app_nil_r in I2. exact I2. }
    set (p := if ok then Done else Failed).
    assert (Hc : contrib (mkThread (t_pkt th) p) = contrib th).
    { unfold contrib. rewrite Hpc. subst p. destruct ok; reflexivity. }
    constructor; cbn.
    + erewrite map_set_nth; eauto.
    + exact I2.
    + intros t' th' E' C'. exfalso. destruct (Nat.eq_dec t t') as [<-|N].
      * rewrite nth_error_set_nth_eq in E' by auto. injection E' as <-. subst p. destruct ok; cbn in C'; contradiction.
      * rewrite nth_error_set_nth_neq in E' by auto. specialize (I3 _ _ E' C'). congruence.
    + intros t' th' E'. destruct (Nat.eq_dec t t') as [<-|N].
      * rewrite nth_error_set_nth_eq in E' by auto. injection E' as <-. subst p. destruct ok; cbn; discriminate.
      * rewrite nth_error_set_nth_neq in E' by auto. eauto.
    + rewrite O. split.
      * apply Forall_app. split. apply fin_at_set_other; auto.
        constructor; [|constructor]. exists (mkThread (t_pkt th) p). split.
        apply nth_error_set_nth_eq; auto. subst p. destruct ok; cbn; auto.
      * rewrite map_app, concat_app. rewrite contrib_at_set_other by auto. cbn.
        unfold contrib_at at 2. rewrite nth_error_set_nth_eq by auto. rewrite Hc, app_nil_r. exact Out.
Qed.

Lemma run_inv pkts ls : forall g, Inv pkts g -> Inv pkts (run true true g ls).
Proof.
  induction ls as [|lb ls IH]; intros g I; cbn; auto.
  apply IH. unfold step_or_skip. destruct (step true true g lb) eqn:S; auto. eapply step_inv; eauto.
Qed.

(* ---------- from the invariant to the statement ---------- *)
Lemma pkt_of_thr pkts thr t th : map t_pkt thr = pkts -> nth_error thr t = Some th -> pkt_of pkts t = t_pkt th.
Proof.
  intros <- E. unfold pkt_of. apply nth_error_nth. rewrite nth_error_map, E. reflexivity.
Qed.

Definition wa_at (thr : list thread) (t : nat) : bool :=
  match nth_error thr t with Some th => wrote_all th | None => false end.

Lemma fin_concat pkts thr l : map t_pkt thr = pkts -> Forall (fin_at thr) l ->
  concat (map (contrib_at thr) l) = concat (map (pkt_of pkts) (filter (wa_at thr) l)).
Proof.
  intros P F. induction F as [|t l [th [E Hp]] F IH]; cbn; auto.
  unfold wa_at at 1, contrib_at at 1. rewrite E. unfold contrib, wrote_all.
  destruct Hp as [Hp|Hp]; rewrite Hp; cbn.
  - rewrite (pkt_of_thr _ _ _ _ P E). now f_equal.
  - exact IH.
Qed.

Theorem whole_packets : forall pkts ls,
  let g := run true true (init pkts) ls in
  NoDup (whole_writers g) /\
  (forall t, In t (whole_writers g) -> t < length pkts) /\
  g_out g = concat (map (pkt_of pkts) (whole_writers g)) ++ partial g.
Proof.
  intros pkts ls g. assert (I : Inv pkts g) by (apply run_inv, init_inv).
  destruct I as [I1 I2 I3 I4 I5]. unfold whole_writers. fold (wa_at (g_thr g)).
  split; [apply NoDup_filter; exact I2|]. split.
  - intros t H. apply filter_In in H as [_ H]. unfold wa_at in H.
    destruct (nth_error (g_thr g) t) eqn:E; [|discriminate].
    apply nth_error_lt in E. rewrite <- I1, map_length. exact E.
  - unfold partial. destruct (g_holder g) as [h|].
    + destruct I5 as [front [th [O [Eh [Hok [F Out]]]]]]. rewrite Eh, O, filter_app, map_app, concat_app.
      rewrite Out, (fin_concat pkts) by auto. rewrite <- app_assoc. f_equal.
      cbn. unfold wa_at. rewrite Eh. unfold contrib, wrote_all. unfold hold_ok in Hok.
      destruct (t_pc th) eqn:Hpc; try contradiction.
      * destruct Hok as [-> | ->].
        -- rewrite andb_false_r. reflexivity.
        -- rewrite Nat.eqb_refl. destruct (length (t_pkt th) =? 0) eqn:Z; cbn.
           ++ apply Nat.eqb_eq in Z. rewrite Z. reflexivity.
           ++ rewrite (pkt_of_thr _ _ _ _ I1 Eh), firstn_all, app_nil_r, app_nil_r. reflexivity.
      * reflexivity.
      * destruct ok; cbn; [|reflexivity]. rewrite (pkt_of_thr _ _ _ _ I1 Eh), app_nil_r, app_nil_r. reflexivity.
    + destruct I5 as [F Out]. rewrite Out, app_nil_r. apply fin_concat; auto.
Qed.

(* while a packet is being written nobody else is inside the critical section, and the bytes
   written so far are a prefix of the holder's own packet *)
Theorem mutual_exclusion : forall pkts ls t1 t2 th1 th2,
  let g := run true true (init pkts) ls in
  nth_error (g_thr g) t1 = Some th1 -> nth_error (g_thr g) t2 = Some th2 ->
  in_cs (t_pc th1) -> in_cs (t_pc th2) -> t1 = t2.
Proof.
  intros pkts ls t1 t2 th1 th2 g E1 E2 C1 C2.
  assert (I : Inv pkts g) by (apply run_inv, init_inv).
  pose proof (inv_cs _ _ I _ _ E1 C1). pose proof (inv_cs _ _ I _ _ E2 C2). congruence.
Qed.

(* with a conforming writer the slice expression never goes out of range *)
Theorem conforming_never_panics : forall pkts ls t th,
  nth_error (g_thr (run true true (init pkts) ls)) t = Some th -> t_pc th <> Panicked.
Proof. intros pkts ls t th E. eapply inv_nopanic; [apply run_inv, init_inv | exact E]. Qed.

(* every Transport.Write call is handed one whole packet (the ghost call log) *)
Definition calls_whole (pkts : list (list N)) (g : gstate) : Prop :=
  forall c, In c (g_calls g) -> exists t, t < length pkts /\ c = pkt_of pkts t.

Lemma run_calls pkts ls : forall g, Inv pkts g -> calls_whole pkts g -> calls_whole pkts (run true true g ls).
Proof.
  induction ls as [|lb ls IH]; intros g I C; cbn; auto.
  unfold step_or_skip. destruct (step true true g lb) as [g'|] eqn:S; [|apply IH; auto].
  apply IH; [eapply step_inv; eauto|].
  destruct lb as [t a]. unfold step in S.
  destruct (nth_error (g_thr g) t) as [th|] eqn:E; [|discriminate].
  destruct (t_pc th) eqn:Hpc; destruct a; try discriminate;
    try (injection S as <-; exact C).
  - destruct (g_holder g); [discriminate|]. injection S as <-. exact C.
  - destruct (i <? length (t_pkt th)) eqn:Hlt.
    + pose proof (inv_cs _ _ I _ _ E) as Hh. rewrite Hpc in Hh. specialize (Hh Logic.I).
      pose proof (inv_main _ _ I) as M. rewrite Hh in M. destruct M as [front [thh [O [Eh [Hok _]]]]].
      rewrite E in Eh. injection Eh as <-. unfold hold_ok in Hok. rewrite Hpc in Hok.
      assert (i = 0) as -> by (apply Nat.ltb_lt in Hlt; lia).
      cbn [Nat.leb] in S. injection S as <-. intros c Hc. cbn in Hc. apply in_app_iff in Hc as [Hc|[<-|[]]]; auto.
      exists t. split. rewrite <- (inv_pkts _ _ I), map_length. eapply nth_error_lt; eauto.
      rewrite chunk_0. symmetry. eapply pkt_of_thr; eauto. apply I.
    + injection S as <-. exact C.
  - destruct (nth_error (chunk (t_pkt th) i) k); [|discriminate]. injection S as <-. exact C.
  - destruct (true && negb (k =? length (chunk (t_pkt th) i))); [discriminate|]. injection S as <-. exact C.
  - destruct (true && negb (k =? 0)); [discriminate|]. injection S as <-. exact C.
Qed.

Theorem one_write_per_packet : forall pkts ls, calls_whole pkts (run true true (init pkts) ls).
Proof. intros. apply run_calls; [apply init_inv|]. intros c []. Qed.

(* ---------- what the theorem depends on (non-vacuity and the two negative examples) ---------- *)

(* three threads, a schedule that interleaves them as much as the lock allows: thread 1 runs
   while thread 0 is in the middle of its Write *)
Definition ex_pkts : list (list N) := [[48;2;0;1]; [192;0]; [64;2;0;7]]%N.
Definition ex_sched : list label :=
  [(0,AStep);(0,AStep);(0,AStep);(0,AEmit);(0,AEmit);
   (1,AStep);(1,AStep);(1,AStep);(1,AEmit);(1,AEmit);(1,ARetOk);      (* thread 1 tries while 0 is mid-packet *)
   (2,AStep);(2,AStep);
   (0,AEmit);(0,AEmit);(0,ARetOk);(0,AStep);(0,AStep);
   (1,AStep);(1,AStep);(1,AStep);(1,AEmit);(1,AEmit);(1,ARetOk);(1,AStep);(1,AStep)].
Example ex_whole : g_out (run true true (init ex_pkts) ex_sched) = [48;2;0;1;192;0]%N
  /\ whole_writers (run true true (init ex_pkts) ex_sched) = [0; 1].
Proof. vm_compute. split; reflexivity. Qed.

(* the same schedule without the mutex interleaves the bytes of two packets: muWrite is what the
   theorem rests on *)
Example nolock_interleaves :
  g_out (run true false (init ex_pkts) ex_sched) = [48;2;192;0;0;1]%N.
Proof. vm_compute. reflexivity. Qed.

(* a transport that accepts only part of the chunk without reporting an error: b[i : l-i] drops
   the tail and then panics — the wire holds a truncated packet followed by the next writer's *)
Definition short_sched : list label :=
  [(0,AStep);(0,AStep);(0,AStep);(0,AEmit);(0,ARetOk);   (* Write(b[0:4]) returns (1, nil) *)
   (0,AStep);(0,AEmit);(0,AEmit);(0,ARetOk);             (* Write(b[1:3]) returns (2, nil): i = 3 *)
   (0,AStep);                                            (* b[3:1]: panic *)
   (1,AStep);(1,AStep);(1,AStep);(1,AEmit);(1,AEmit);(1,ARetOk);(1,AStep);(1,AStep)].
Example short_write_breaks :
  let g := run false true (init ex_pkts) short_sched in
  g_out g = [48;2;0;192;0]%N /\ map t_pc (g_thr g) = [Panicked; Done; Idle] /\ g_calls g = [[48;2;0;1];[2;0];[192;0]]%N.
Proof. vm_compute. repeat split; reflexivity. Qed.

(* once a short write has advanced i into 0 < i < l, write never returns nil: i stays in that
   range until the slice expression panics (or the transport fails, or it spins) *)
Definition stuck_pc (l : nat) (p : pc) : Prop :=
  match p with
  | Looping i => 0 < i < l
  | InWrite i k => 0 < i /\ i + k <= l - i /\ i <= l - i
  | Unlocking false | Failed | Panicked => True
  | _ => False
  end.

Lemma chunk_length b i : i <= length b - i -> length (chunk b i) = length b - i - i.
Proof. intros H. unfold chunk, slice. rewrite firstn_length, skipn_length. lia. Qed.

Theorem short_write_never_returns_nil : forall lock ls g t th,
  nth_error (g_thr g) t = Some th -> stuck_pc (length (t_pkt th)) (t_pc th) ->
  exists th', nth_error (g_thr (run false lock g ls)) t = Some th' /\ t_pkt th' = t_pkt th /\
              stuck_pc (length (t_pkt th')) (t_pc th').
Proof.
  intros lock ls. induction ls as [|lb ls IH]; intros g t th E S; cbn.
  - exists th. auto.
  - unfold step_or_skip. destruct (step false lock g lb) as [g'|] eqn:St; [|eapply IH; eauto].
    assert (H : exists th', nth_error (g_thr g') t = Some th' /\ t_pkt th' = t_pkt th /\ stuck_pc (length (t_pkt th')) (t_pc th')).
    { assert (L : t < length (g_thr g)) by (eapply nth_error_lt; eauto).
      destruct lb as [u a]. unfold step in St.
      destruct (nth_error (g_thr g) u) as [thu|] eqn:Eu; [|discriminate].
      assert (Other : forall p, u <> t -> nth_error (set_nth u (mkThread (t_pkt thu) p) (g_thr g)) t = Some th)
        by (intros; rewrite nth_error_set_nth_neq; auto).
      destruct (Nat.eq_dec u t) as [->|N].
      - rewrite E in Eu. injection Eu as <-.
        assert (Same : forall p, stuck_pc (length (t_pkt th)) p ->
                  exists th', nth_error (set_nth t (mkThread (t_pkt th) p) (g_thr g)) t = Some th' /\ t_pkt th' = t_pkt th /\
                              stuck_pc (length (t_pkt th')) (t_pc th')).
        { intros p Hp. eexists. split; [apply nth_error_set_nth_eq; auto|]. cbn. auto. }
        destruct (t_pc th) eqn:Hpc; destruct a; cbn in S; try contradiction; try discriminate.
        + destruct (i <? length (t_pkt th)) eqn:Hlt; [|apply Nat.ltb_ge in Hlt; lia].
          destruct (i <=? length (t_pkt th) - i) eqn:Hle; injection St as <-; cbn; apply Same; cbn; auto.
          apply Nat.leb_le in Hle. lia.
        + destruct (nth_error (chunk (t_pkt th) i) k) eqn:Ek; [|discriminate]. injection St as <-. cbn.
          apply Same. cbn. apply nth_error_lt in Ek. rewrite chunk_length in Ek by lia. lia.
        + cbn in St. injection St as <-. cbn. apply Same. cbn. lia.
        + cbn in St. injection St as <-. cbn. apply Same. cbn. auto.
        + destruct ok; [contradiction|]. injection St as <-. cbn. apply Same. cbn. auto.
      - exists th. split; [|auto].
        destruct (t_pc thu); destruct a; try discriminate;
          repeat match type of St with
                 | context [if ?c then _ else _] => destruct c
                 | context [match ?c with _ => _ end] => destruct c
                 end; try discriminate; injection St as <-; cbn; auto. }
    destruct H as [th' [E' [P' S']]]. destruct (IH g' t th' E' S') as [th'' [E'' [P'' S'']]].
    exists th''. split; auto. split; congruence.
Qed.
