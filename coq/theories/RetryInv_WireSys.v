(* RetryInv_WireSys.v — part 9: the wire invariant holds in every reachable state; C12 and C03. *)
From MQ Require Import Base RetryCore RetrySys CheckRetry RetryProps
  RetryInv_Wire RetryInv_WireBase RetryInv_WireU RetryInv_WireT RetryInv_WireC RetryInv_WireD RetryInv_WireK
  RetryInv_WireExec.
Open Scope nat_scope.

Definition tents (q : list task) : list rentry := flat_map task_entries q.
Definition wfsub (s : sys) : Prop := increasing_from 0 (uids (s_submitted s)) = true.
Definition pend (s : sys) : list rentry := w_retryq (s_w s) ++ tents (s_taskq s).

Definition Inv (fp : fplan) (s : sys) : Prop :=
  w_nrbe (s_w s) = false /\ K fp (s_submitted s) (s_w s) 0 [] (pend s).

Lemma tents_app q1 q2 : tents (q1 ++ q2) = tents q1 ++ tents q2.
Proof. unfold tents. apply flat_map_app. Qed.

Lemma Inv_k fp s k : Inv fp s -> K fp (s_submitted s) (s_w s) k [] (pend s).
Proof.
  intros [N H]. apply (K_finish fp _ _ 0 [] (pend s) (s_w s) k H (wsame_refl _)); [|exact N].
  intros Q. congruence.
Qed.

Lemma wsame_upd w k f : (forall c, cl_alive (f c) = true -> cl_alive c = true) -> wsame w (upd_client w k f).
Proof.
  intros Hf. split; try reflexivity.
  - unfold upd_client. prj. apply upd_nth_length.
  - intros j. apply alive_upd_mono. exact Hf.
Qed.

Lemma init_mono c : cl_alive (client_init c) = true -> cl_alive c = true.
Proof. cbn. auto. Qed.
Lemma accept_mono c : cl_alive (client_accept c) = true -> cl_alive c = true.
Proof. cbn. auto. Qed.

Lemma Inv0 fp : Inv fp sys0.
Proof.
  split; [reflexivity|]. unfold pend. cbn.
  split; cbn [List.app].
  - split; cbn; try reflexivity; try (intros; contradiction).
  - split; [intros u; cbn; discriminate|intros e []].
  - intros m [].
  - split; cbn; try reflexivity; intros; contradiction.
  - split; cbn; try reflexivity; intros; contradiction.
  - intros _. split; cbn; try reflexivity; intros; contradiction.
Qed.

(* a freshly dialled connection *)
Lemma K_newclient fp S w P k :
  K fp S w 0 [] P -> w_nrbe w = false ->
  K fp S (set_clients w (w_clients w ++ [client_new])) k [] P.
Proof.
  intros [] N. set (w' := set_clients w (w_clients w ++ [client_new])).
  assert (A : forall j, alive w' j = true -> alive w j = true \/ publishes_on j (w_wire w) = []).
  { intros j Hj. unfold alive, get_client, w' in *. prj.
    destruct (Nat.lt_ge_cases j (length (w_clients w))) as [L|L].
    - left. rewrite app_nth1 in Hj by exact L. exact Hj.
    - right. destruct (publishes_on j (w_wire w)) as [|u l] eqn:Q; [reflexivity|].
      destruct (publishes_on_In u j (w_wire w)) as (m & d & r & Hin & _ & Hr); [rewrite Q; left; reflexivity|].
      pose proof (kb_wk _ _ _ k_b _ _ _ Hin Hr). lia. }
  cbn [List.app] in *. split; cbn [List.app].
  - destruct k_b. split; auto.
    intros j p r Hin Hr. unfold w'. prj. rewrite app_length. specialize (kb_wk _ _ _ Hin Hr). cbn. lia.
  - apply (KU_rearr w P w' P k_u eq_refl). intros e He; left; exact He.
  - exact k_q.
  - apply (KT_rearr w [] P w' [] P k_t eq_refl); auto.
  - apply (KC_finish w 0 [] P w' k k_c eq_refl A); [intros Q; congruence|exact N].
  - intros co. apply (KD_finish S w 0 [] P w' k (k_d co) eq_refl).
Qed.

Lemma inc_uids_snoc S o :
  increasing_from 0 (uids (S ++ [o])) = true ->
  (forall x, In x (uids S) -> x < uop_uid o) /\ 0 < uop_uid o.
Proof.
  rewrite uids_app. intros H. apply (proj1 (inc_app_iff _ _ _)) in H as (A & B & C). split.
  - intros x Hx. apply C; [exact Hx|left; reflexivity].
  - cbn [increasing_from] in B. apply andb_true_iff in B as [B _]. lia.
Qed.

Section Step.
Variable cfg : config.
Variable fp : fplan.

Ltac same_w H :=
  split; [exact (proj1 H)|exact (proj2 H)].

Lemma Inv_same s s' :
  Inv fp s -> wsame (s_w s) (s_w s') -> w_nrbe (s_w s') = w_nrbe (s_w s) ->
  w_retryq (s_w s') = w_retryq (s_w s) -> tents (s_taskq s') = tents (s_taskq s) ->
  s_submitted s' = s_submitted s -> Inv fp s'.
Proof.
  intros [N H] Ws En Eq Et Es. split; [congruence|].
  unfold pend. rewrite Eq, Et, Es. eapply K_same; eauto.
Qed.

Lemma step_Inv s l s' : Inv fp s -> step cfg fp s l = Some s' -> wfsub s' -> Inv fp s'.
Proof.
  intros I St Wf. destruct l; cbn [step] in St.
  - (* LSubmit *)
    inversion St; subst s'; clear St. unfold wfsub in Wf. prj.
    destruct (inc_uids_snoc _ _ Wf) as [Hlt Hpos]. destruct I as [N H].
    split; [exact N|]. unfold pend. prj. rewrite tents_app. cbn [tents flat_map task_entries List.app].
    rewrite app_assoc. apply K_submit; auto.
  - (* LObserve *)
    destruct (s_tmode s); [|discriminate].
    destruct ((0 <? g) && ((g <? s_gen s) || (g =? s_gen s) && match s_cres s with CrPending => false | _ => true end));
      [|discriminate].
    inversion St; subst s'. eapply Inv_same; eauto using wsame_refl.
  - (* LTask *)
    destruct (w_hung (s_w s)); [discriminate|].
    destruct (s_tmode s) as [|g]; [discriminate|].
    destruct (negb (g =? s_gen s)).
    { inversion St; subst s'. eapply Inv_same; eauto using wsame_refl. }
    destruct (s_taskq s) as [|t q] eqn:Q; [discriminate|].
    destruct (s_cur s) as [k|] eqn:C; [|discriminate].
    pose proof (Inv_k _ _ k I) as H. unfold pend in H. rewrite Q in H.
    cbn [tents flat_map] in H. fold (tents q) in H.
    destruct (exec_task_K cfg fp _ k (tents q) _ t H) as (Pd & Pt & E & H1).
    set (w1 := exec_task cfg fp (s_w s) k t) in *.
    destruct (w_nrbe w1) eqn:Nr; inversion St; subst s'; clear St; unfold Inv, pend; prj.
    + split; [reflexivity|]. rewrite <- E.
      apply (K_finish fp _ w1 k Pd Pt _ 0 H1); [|intros _; apply alive_kill|reflexivity].
      eapply ws_trans; [apply (wsame_upd w1 k kill kill_mono)|apply ws_set_nrbe].
    + split; [exact Nr|]. rewrite <- E.
      apply (K_finish fp _ w1 k Pd Pt _ 0 H1 (wsame_refl _)); [intros Q'; congruence|exact Nr].
  - (* LDial *)
    destruct (s_pc s); try discriminate. destruct ok.
    + inversion St; subst s'. destruct I as [N H]. split; [exact N|]. unfold pend. prj.
      apply K_newclient; auto.
    + inversion St; subst s'. eapply Inv_same; eauto using wsame_refl.
  - (* LSetClient *)
    destruct (s_pc s); try discriminate. inversion St; subst s'.
    eapply Inv_same; eauto using wsame_refl.
  - (* LConnBegin *)
    destruct (s_pc s); try discriminate. inversion St; subst s'.
    eapply Inv_same; eauto. prj. apply wsame_upd, init_mono.
  - (* LConnEnd *)
    destruct (s_pc s); try discriminate. destruct o as [sp| | |].
    + destruct (cl_alive (get_client (s_w s) k)); [|discriminate]. inversion St; subst s'.
      eapply Inv_same; eauto; prj; destruct sp; prj; try reflexivity.
      * apply wsame_upd, accept_mono.
      * eapply ws_trans; [apply (wsame_upd _ k client_accept accept_mono)|]. split; auto.
    + inversion St; subst s'. eapply Inv_same; eauto. prj. apply wsame_upd, kill_mono.
    + inversion St; subst s'. eapply Inv_same; eauto. prj. apply wsame_upd, kill_mono.
    + inversion St; subst s'. eapply Inv_same; eauto using wsame_refl.
  - (* LPushResub *)
    destruct (s_pc s); try discriminate.
    destruct (s_initialized s && (negb sp || c_always_resub cfg)); inversion St; subst s';
      eapply Inv_same; eauto using wsame_refl.
    prj. rewrite tents_app. cbn. apply app_nil_r.
  - (* LPushRetry *)
    destruct (s_pc s); try discriminate. inversion St; subst s'.
    eapply Inv_same; eauto using wsame_refl.
    prj. rewrite tents_app. cbn. apply app_nil_r.
  - (* LDetectEnd *)
    destruct (s_pc s); try discriminate.
    destruct (cl_alive (get_client (s_w s) k)); [discriminate|]. inversion St; subst s'.
    eapply Inv_same; eauto using wsame_refl.
  - (* LCloseFailed *)
    destruct (s_pc s); try discriminate. inversion St; subst s'.
    eapply Inv_same; eauto. prj. apply wsame_upd, kill_mono.
  - (* LBackoff *)
    destruct (s_pc s); try discriminate. inversion St; subst s'.
    eapply Inv_same; eauto using wsame_refl.
  - (* LIdleCut *)
    destruct (s_pc s); try discriminate.
    destruct (cl_alive (get_client (s_w s) k)); [|discriminate]. inversion St; subst s'.
    eapply Inv_same; eauto. prj. apply wsame_upd, kill_mono.
Qed.

Lemma step_submitted s l s' :
  step cfg fp s l = Some s' -> s_submitted s' = s_submitted s ++ submits [l].
Proof.
  intros St. destruct l; cbn [step submits] in *; rewrite ?app_nil_r;
    repeat match type of St with
           | Some _ = Some _ => inversion St; subst s'; clear St; prj; try reflexivity
           | None = Some _ => discriminate
           | context [match ?x with _ => _ end] => destruct x
           end.
Qed.

Lemma submits_app a b : submits (a ++ b) = submits a ++ submits b.
Proof.
  induction a as [|l a IH]; [reflexivity|]. cbn [List.app submits]. destruct l; rewrite ?IH; reflexivity.
Qed.

Lemma run_submitted ls : forall s s', run cfg fp s ls = Some s' -> s_submitted s' = s_submitted s ++ submits ls.
Proof.
  induction ls as [|l ls IH]; intros s s' R; cbn [run] in R.
  - inversion R; subst. cbn. rewrite app_nil_r. reflexivity.
  - destruct (step cfg fp s l) as [s1|] eqn:St; [|discriminate].
    rewrite (IH _ _ R), (step_submitted _ _ _ St), <- app_assoc.
    change (l :: ls) with ([l] ++ ls). rewrite submits_app. reflexivity.
Qed.

Lemma wfsub_prefix A B : increasing_from 0 (uids (A ++ B)) = true -> increasing_from 0 (uids A) = true.
Proof. unfold uids. rewrite map_app. intros H. apply (proj1 (inc_app_iff _ _ _)) in H. tauto. Qed.

Lemma run_Inv ls : forall s s', run cfg fp s ls = Some s' -> Inv fp s -> wfsub s' -> Inv fp s'.
Proof.
  induction ls as [|l ls IH]; intros s s' R I Wf; cbn [run] in R.
  - inversion R; subst. exact I.
  - destruct (step cfg fp s l) as [s1|] eqn:St; [|discriminate].
    apply (IH _ _ R); [|exact Wf]. apply (step_Inv _ _ _ I St).
    unfold wfsub in *. rewrite (run_submitted _ _ _ R) in Wf. eapply wfsub_prefix; eauto.
Qed.

Lemma reach_Inv ls s : run cfg fp sys0 ls = Some s -> wf_labels ls -> Inv fp s.
Proof.
  intros R Wf. apply (run_Inv _ _ _ R (Inv0 fp)).
  unfold wfsub, uids. rewrite (run_submitted _ _ _ R). exact Wf.
Qed.

End Step.

(* ====================================================================== *)
Lemma C12_faithful : C12_faithful_stmt.
Proof.
  intros cfg fp ls s R Wf u. destruct (reach_Inv _ _ _ _ R Wf) as [_ H].
  apply ustate_sound. apply (ku_ok _ _ (k_u _ _ _ _ _ _ H)).
Qed.

Lemma C12_no_publish_after_pubrel : C12_no_publish_after_pubrel_stmt.
Proof.
  intros cfg fp ls s R Wf u. destruct (reach_Inv _ _ _ _ R Wf) as [_ H].
  apply ustate_sound. apply (ku_ok _ _ (k_u _ _ _ _ _ _ H)).
Qed.

Lemma C12_submitted_message : C12_submitted_message_stmt.
Proof.
  intros cfg fp ls s R Wf k m d r Hin. destruct (reach_Inv _ _ _ _ R Wf) as [_ H].
  exact (kb_wsub _ _ _ (k_b _ _ _ _ _ _ H) _ _ _ _ Hin).
Qed.

Lemma C03_conn_order : C03_conn_order_stmt.
Proof.
  intros cfg fp ls s R Wf k. destruct (reach_Inv _ _ _ _ R Wf) as [_ H].
  apply (kc_nd _ _ _ _ (k_c _ _ _ _ _ _ H)).
Qed.

Lemma C03_first_tx_order : C03_first_tx_order_stmt.
Proof.
  intros cfg fp ls s R Wf. destruct (reach_Inv _ _ _ _ R Wf) as [_ H].
  apply (kt_inc _ _ _ (k_t _ _ _ _ _ _ H)).
Qed.

Lemma C03_first_delivery_order : C03_first_delivery_order_stmt.
Proof.
  intros cfg fp ls s R Wf co. destruct (reach_Inv _ _ _ _ R Wf) as [_ H].
  apply (kd_inc _ _ _ _ _ (k_d _ _ _ _ _ _ H co)).
Qed.
