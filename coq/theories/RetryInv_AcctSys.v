(* RetryInv_AcctSys.v — system-level invariants of the retry / reconnect model:
   I-conn (a task only runs against an initialised client), I-acct (every accepted request is
   acknowledged or queued exactly once), and from them C01_no_loss, C18_no_hang,
   C18_timeout_reaction. *)
From MQ Require Import Base RetryCore RetrySys CheckRetry RetryProps RetryInv_Acct.
Open Scope nat_scope.

Ltac sproj := cbn [s_w s_cur s_gen s_cres s_taskq s_tmode s_pc s_initialized s_submitted s_waits
  set_w set_pc set_tmode set_taskq set_cres] in *.

(* destruct every match / if at the head of the step equation H *)
Ltac destr_step H :=
  repeat (cbv beta iota in H;
          match type of H with
          | (match ?x with _ => _ end) = _ => destruct x eqn:?
          | None = Some _ => discriminate H
          end).

Section Sys.
Variable cfg : config.
Variable fp : fplan.

Lemma run_app a : forall s b,
  run cfg fp s (a ++ b) = match run cfg fp s a with Some s' => run cfg fp s' b | None => None end.
Proof.
  induction a; intros s b; cbn [List.app run]; auto. destruct (step cfg fp s a); auto.
Qed.

Lemma run_snoc ls s l :
  run cfg fp s (ls ++ [l]) = match run cfg fp s ls with Some s' => step cfg fp s' l | None => None end.
Proof.
  rewrite run_app. destruct (run cfg fp s ls); auto. cbn [run]. destruct (step cfg fp s0 l); auto.
Qed.

Lemma submits_app a b : submits (a ++ b) = submits a ++ submits b.
Proof.
  induction a as [|l a IH]; cbn [List.app submits]; auto. destruct l; rewrite ?IH; reflexivity.
Qed.

(* ---------- inversion of the task step ---------- *)
Definition after_task (s : sys) (q : list task) (w : world) (k : nat) : sys :=
  if w_nrbe w then set_tmode (set_w (set_taskq s q) (set_nrbe (upd_client w k kill) false)) TWaiting
  else set_w (set_taskq s q) w.

Lemma step_LTask_inv s s' : step cfg fp s LTask = Some s' ->
  w_hung (s_w s) = false /\
  exists g, s_tmode s = TReady g /\
    ((g <> s_gen s /\ s' = set_tmode s TWaiting) \/
     (g = s_gen s /\ exists t q k, s_taskq s = t :: q /\ s_cur s = Some k /\
        s' = after_task s q (exec_task cfg fp (s_w s) k t) k)).
Proof.
  cbn [step]. intros H. destruct (w_hung (s_w s)) eqn:Eh; [discriminate|]. split; auto.
  destruct (s_tmode s) as [|g] eqn:Em; [discriminate|]. exists g; split; auto.
  destruct (g =? s_gen s) eqn:Eg; cbn [negb] in H.
  - right. apply Nat.eqb_eq in Eg. split; auto.
    destruct (s_taskq s) as [|t q]; [discriminate|]. destruct (s_cur s) as [k|]; [|discriminate].
    exists t, q, k. splits; auto. unfold after_task.
    destruct (w_nrbe (exec_task cfg fp (s_w s) k t)); injection H as <-; reflexivity.
  - left. apply Nat.eqb_neq in Eg. injection H as <-. auto.
Qed.

(* what the world of [after_task] looks like *)
Lemma after_task_w s q w k :
  w_retryq (s_w (after_task s q w k)) = w_retryq w /\ w_wire (s_w (after_task s q w k)) = w_wire w
  /\ w_dropped (s_w (after_task s q w k)) = w_dropped w /\ w_hung (s_w (after_task s q w k)) = w_hung w
  /\ w_errs (s_w (after_task s q w k)) = w_errs w
  /\ w_nrbe (s_w (after_task s q w k)) = false
  /\ length (w_clients (s_w (after_task s q w k))) = length (w_clients w)
  /\ (forall k', cl_inited (get_client (s_w (after_task s q w k)) k') = cl_inited (get_client w k'))
  /\ s_taskq (after_task s q w k) = q /\ s_submitted (after_task s q w k) = s_submitted s
  /\ s_cur (after_task s q w k) = s_cur s /\ s_gen (after_task s q w k) = s_gen s
  /\ s_cres (after_task s q w k) = s_cres s /\ s_pc (after_task s q w k) = s_pc s.
Proof.
  unfold after_task. destruct (w_nrbe w) eqn:E; sproj; wproj; splits; auto.
  - apply upd_nth_length.
  - intros k'. unfold get_client; wproj. apply nth_upd_nth_inited. reflexivity.
Qed.

(* every other step leaves the queues, the logs and the flags of the world alone *)
Definition wframe (w w' : world) : Prop :=
  w_retryq w' = w_retryq w /\ w_wire w' = w_wire w /\ w_dropped w' = w_dropped w
  /\ w_hung w' = w_hung w /\ w_errs w' = w_errs w /\ w_nrbe w' = w_nrbe w.

Lemma wframe_refl w : wframe w w.
Proof. unfold wframe; splits; reflexivity. Qed.

Lemma step_other_wframe s l s' : step cfg fp s l = Some s' -> l <> LTask -> wframe (s_w s) (s_w s').
Proof.
  intros H Hl. destruct l; try congruence; cbn [step] in H; destr_step H;
    try (injection H as <-); sproj; try apply wframe_refl;
    repeat match goal with |- context [if ?b then _ else _] => destruct b end;
    unfold wframe; wproj; splits; reflexivity.
Qed.

Lemma step_hung_mono s l s' : step cfg fp s l = Some s' -> w_hung (s_w s') = false -> w_hung (s_w s) = false.
Proof.
  intros H Hh. destruct l; try (apply step_other_wframe in H; [|discriminate];
    destruct H as (_ & _ & _ & E & _); congruence).
  apply step_LTask_inv in H. tauto.
Qed.

(* ---------- C18: with a response timeout the task goroutine never hangs ---------- *)
Lemma step_nohang s l s' : c_timeout cfg = true -> step cfg fp s l = Some s' ->
  w_hung (s_w s) = false -> w_hung (s_w s') = false.
Proof.
  intros Hto H Hh. destruct l; try (apply step_other_wframe in H; [|discriminate];
    destruct H as (_ & _ & _ & E & _); congruence).
  apply step_LTask_inv in H. destruct H as (_ & g & _ & [[_ ->]|(_ & t & q & k & _ & _ & ->)]); auto.
  destruct (after_task_w s q (exec_task cfg fp (s_w s) k t) k) as (_ & _ & _ & E & _).
  rewrite E, exec_task_nohang; auto.
Qed.

End Sys.

Lemma no_hang : C18_no_hang_stmt.
Proof.
  unfold C18_no_hang_stmt. intros cfg fp ls s Hto.
  assert (G : forall ls s0 s, w_hung (s_w s0) = false -> run cfg fp s0 ls = Some s -> w_hung (s_w s) = false).
  { clear ls s. induction ls as [|l ls IH]; intros s0 s H0; cbn [run].
    - intros E; injection E as <-; auto.
    - destruct (step cfg fp s0 l) as [s1|] eqn:Es; [|discriminate].
      apply IH. eapply step_nohang; eauto. }
  apply G. reflexivity.
Qed.

(* ---------- C18: reaction to a timeout ---------- *)
Lemma timeout_reaction : C18_timeout_reaction_stmt.
Proof.
  unfold C18_timeout_reaction_stmt. intros cfg fp s s' Hto H Hlt.
  apply step_LTask_inv in H. destruct H as (Hh & g & Hm & [[_ ->]|(_ & t & q & k & Hq & Hc & ->)]).
  { sproj. lia. }
  set (w := exec_task cfg fp (s_w s) k t) in *.
  assert (Hw : w_hung w = false) by (unfold w; rewrite exec_task_nohang; auto).
  pose proof (exec_task_X cfg fp k (s_w s) t Hh Hw) as X. fold w in X.
  destruct (after_task_w s q w k) as (Erq & _ & _ & _ & Eerrs & _).
  rewrite Eerrs in Hlt.
  destruct (x_t _ _ _ _ X) as [[E _]|[En Eq]]; [lia|].
  rewrite Erq. splits; auto.
  - unfold after_task. rewrite En. reflexivity.
  - unfold after_task, cur_alive. rewrite En. sproj. rewrite Hc. unfold get_client. wproj.
    apply nth_upd_nth_kill_alive.
Qed.

(* ---------- I-conn ---------- *)
Section Inv.
Variable cfg : config.
Variable fp : fplan.

Definition inited (s : sys) (k : nat) : Prop := cl_inited (get_client (s_w s) k) = true.

Record Iconn (s : sys) : Prop := {
  ic_mode : forall g, s_tmode s = TReady g -> g <= s_gen s /\ (g = s_gen s -> s_cres s <> CrPending);
  ic_cres : s_cres s <> CrPending -> exists k, s_cur s = Some k /\ inited s k;
  ic_pc : match s_pc s with
          | RSetClient k => k < length (w_clients (s_w s))
          | RConnBegin k => k < length (w_clients (s_w s)) /\ s_cur s = Some k
          | RConnWait k => s_cur s = Some k /\ inited s k
          | _ => True
          end
}.

Lemma Iconn0 : Iconn sys0.
Proof. split; cbn; auto; try discriminate. congruence. Qed.

Lemma nth_upd_nth_inited_mono f (Hf : forall c, cl_inited c = true -> cl_inited (f c) = true) l :
  forall k k', cl_inited (nth k' l client_none) = true -> cl_inited (nth k' (upd_nth k f l) client_none) = true.
Proof.
  induction l; intros k k'; destruct k; cbn [upd_nth]; auto.
  - destruct k'; cbn [nth]; auto.
  - destruct k'; cbn [nth]; auto.
Qed.

Lemma inited_app l x k : cl_inited (nth k l client_none) = true -> nth k (l ++ x) client_none = nth k l client_none.
Proof.
  intros H. destruct (Nat.lt_ge_cases k (length l)) as [Hk|Hk].
  - apply app_nth1; auto.
  - rewrite (nth_overflow l) in H by exact Hk. discriminate.
Qed.

(* any step keeps initialised clients initialised and never shrinks the client list;
   for LTask under the proviso that the task did not hang *)
Lemma step_inited_mono s l s' : step cfg fp s l = Some s' -> w_hung (s_w s') = false ->
  (forall k, inited s k -> inited s' k) /\ length (w_clients (s_w s)) <= length (w_clients (s_w s')).
Proof.
  intros H Hh. destruct l.
  3: { apply step_LTask_inv in H. destruct H as (Hh0 & g & _ & [[_ ->]|(_ & t & q & k & _ & _ & ->)]); auto.
       destruct (after_task_w s q (exec_task cfg fp (s_w s) k t) k) as (_ & _ & _ & Eh & _ & _ & El & Ei & _).
       rewrite Eh in Hh. pose proof (exec_task_X cfg fp k (s_w s) t Hh0 Hh) as X.
       unfold inited. split.
       - intros k'. rewrite Ei, (x_init _ _ _ _ X). auto.
       - rewrite El, exec_task_len. lia. }
  all: cbn [step] in H; destr_step H; try (injection H as <-);
    repeat match goal with |- context [if ?b then _ else _] => destruct b end;
    unfold inited, get_client; sproj; wproj;
    (split; [ intros k' Hk';
              first [ exact Hk'
                    | (apply nth_upd_nth_inited_mono; [intros c Hc; cbn; auto | exact Hk'])
                    | (rewrite inited_app; [exact Hk' | exact Hk']) ]
            | rewrite ?upd_nth_length, ?app_length; cbn [length]; lia ]).
Qed.

Lemma step_Iconn s l s' : Iconn s -> step cfg fp s l = Some s' -> w_hung (s_w s') = false -> Iconn s'.
Proof.
  intros [Hm Hc Hp] H Hh. pose proof (step_inited_mono _ _ _ H Hh) as [Hi Hl].
  destruct l.
  3: { (* LTask *)
    apply step_LTask_inv in H. destruct H as (Hh0 & g & Hg & [[_ ->]|(_ & t & q & k & _ & _ & ->)]).
    - split; sproj; auto. discriminate.
    - destruct (after_task_w s q (exec_task cfg fp (s_w s) k t) k)
        as (_ & _ & _ & _ & _ & _ & El & _ & _ & _ & Ecur & Egen & Ecres & Epc).
      assert (Em : s_tmode (after_task s q (exec_task cfg fp (s_w s) k t) k) = TWaiting
                   \/ s_tmode (after_task s q (exec_task cfg fp (s_w s) k t) k) = s_tmode s).
      { unfold after_task. destruct (w_nrbe _); sproj; auto. }
      split.
      + intros g' Hg'. rewrite Egen, Ecres. destruct Em as [Em|Em]; [congruence|]. apply Hm. congruence.
      + rewrite Ecres, Ecur. intros Hne. destruct (Hc Hne) as (k' & E1 & E2). eauto.
      + rewrite Epc, Ecur. rewrite El, exec_task_len.
        destruct (s_pc s); auto. destruct Hp; auto. }
  all: cbn [step] in H; destr_step H; try (injection H as <-); sproj.
  all: split; sproj; auto; try discriminate.
  - (* LObserve *) intros g' Hg'. injection Hg' as <-.
    destruct (s_cres s) eqn:Ec; split; try lia; intros; try discriminate; lia.
  - (* LDial *) intros Hne; destruct (Hc Hne) as (k' & E1 & E2); exists k'; split; [exact E1 | apply Hi; exact E2].
  - wproj. rewrite app_length. cbn [length]. lia.
  - (* LSetClient *) intros g' Hg'. destruct (Hm g' Hg'). split; [lia | intros; lia].
  - intros Hne. congruence.
  - (* LConnBegin *) intros Hne; destruct (Hc Hne) as (k' & E1 & E2); exists k'; split; [exact E1 | apply Hi; exact E2].
  - split; [apply Hp|]. unfold inited, get_client; sproj; wproj.
    rewrite nth_upd_nth_same; [reflexivity | apply Hp].
  - (* LConnEnd *) intros g' Hg'. destruct (Hm g' Hg'). split; [auto | intros; discriminate].
  - intros _. exists k; split; [apply Hp | apply Hi; apply Hp].
  - intros g' Hg'. destruct (Hm g' Hg'). split; [auto | intros; discriminate].
  - intros _. exists k; split; [apply Hp | apply Hi; apply Hp].
  - intros g' Hg'. destruct (Hm g' Hg'). split; [auto | intros; discriminate].
  - intros _. exists k; split; [apply Hp | apply Hi; apply Hp].
  - intros g' Hg'. destruct (Hm g' Hg'). split; [auto | intros; discriminate].
  - intros _. exists k; split; [apply Hp | apply Hi; apply Hp].
  - (* LCloseFailed *) intros Hne; destruct (Hc Hne) as (k' & E1 & E2); exists k'; split; [exact E1 | apply Hi; exact E2].
  - (* LIdleCut *) intros Hne; destruct (Hc Hne) as (k' & E1 & E2); exists k'; split; [exact E1 | apply Hi; exact E2].
  - match goal with Hpc : s_pc _ = _ |- _ => rewrite Hpc end. exact I.
Qed.


(* ---------- I-acct ---------- *)
Definition pops (s : sys) : list uop :=
  nzf (map entry_op (w_retryq (s_w s))) ++ flat_map task_ops (s_taskq s).

Lemma pending_pops s : pending_uids s = map uop_uid (pops s).
Proof. unfold pending_uids, pops. rewrite map_app, nonzero_nzf, task_uids_ops. reflexivity. Qed.

Record Iacct (s : sys) : Prop := {
  ia_sub : forall o, In o (pops s) -> In o (s_submitted s);
  ia_cov : forall o, In o (s_submitted s) -> needs_ack o = true ->
             In (uop_uid o) (final_acked (wire_of s)) \/ In o (pops s);
  ia_inc : increasing_from 0 (map uop_uid (pops s)) = true;
  ia_drop : forall u, In u (w_dropped (s_w s)) ->
              u = 0 \/ exists o, In o (s_submitted s) /\ uop_uid o = u /\ needs_ack o = false
}.

Lemma Iacct0 : Iacct sys0.
Proof. split; cbn; auto; intros; contradiction. Qed.

(* steps that do not touch the queues' requests, the wire, the dropped list or the submissions *)
Lemma Iacct_eq s s' :
  pops s' = pops s -> wire_of s' = wire_of s -> w_dropped (s_w s') = w_dropped (s_w s) ->
  s_submitted s' = s_submitted s -> Iacct s -> Iacct s'.
Proof. intros E1 E2 E3 E4 [H1 H2 H3 H4]. split; rewrite ?E1, ?E2, ?E3, ?E4; auto. Qed.

Lemma Iacct_submit s s' o :
  w_retryq (s_w s') = w_retryq (s_w s) -> s_taskq s' = s_taskq s ++ [TOp o] ->
  wire_of s' = wire_of s -> w_dropped (s_w s') = w_dropped (s_w s) ->
  s_submitted s' = s_submitted s ++ [o] ->
  increasing_from 0 (map uop_uid (s_submitted s')) = true ->
  Iacct s -> Iacct s'.
Proof.
  intros E1 E2 E3 E4 E5 Hinc [H1 H2 H3 H4].
  assert (Ep : pops s' = pops s ++ [o]).
  { unfold pops. rewrite E1, E2, flat_map_app, app_assoc. reflexivity. }
  rewrite E5, map_app in Hinc. cbn [map] in Hinc. apply inc_snoc in Hinc as (Hi1 & Hi2 & Hi3).
  split; rewrite ?Ep, ?E3, ?E4, ?E5.
  - intros o' Ho. apply in_app_or in Ho as [Ho|[<-|[]]]; apply in_or_app; [left; auto | right; left; reflexivity].
  - intros o' Ho Hn. apply in_app_or in Ho as [Ho|[<-|[]]].
    + destruct (H2 o' Ho Hn); auto. right; apply in_or_app; auto.
    + right; apply in_or_app; right; left; reflexivity.
  - rewrite map_app. cbn [map]. apply inc_snoc. splits; auto.
    intros x Hx. apply in_map_iff in Hx as (o' & <- & Ho'). apply Hi3. apply in_map. auto.
  - intros u Hu. destruct (H4 u Hu) as [?|(o' & Ho & E & Hn)]; auto.
    right. exists o'. splits; auto. apply in_or_app; auto.
Qed.

Lemma Iacct_task s s' k t q w :
  Iacct s -> s_taskq s = t :: q -> Xspec k (s_w s) w t -> cl_inited (get_client (s_w s) k) = true ->
  w_retryq (s_w s') = w_retryq w -> w_wire (s_w s') = w_wire w -> w_dropped (s_w s') = w_dropped w ->
  s_taskq s' = q -> s_submitted s' = s_submitted s -> Iacct s'.
Proof.
  intros [H1 H2 H3 H4] Eq [Xs Xc Xd Xw Xi Xt] Hin E1 E2 E3 E4 E5.
  assert (Hni : ~ ni k (s_w s)) by (unfold ni; congruence).
  assert (Ep : pops s = nzf (map entry_op (w_retryq (s_w s))) ++ task_ops t ++ flat_map task_ops q).
  { unfold pops. rewrite Eq. reflexivity. }
  assert (Ep' : pops s' = nzf (map entry_op (w_retryq w)) ++ flat_map task_ops q).
  { unfold pops. rewrite E1, E4. reflexivity. }
  assert (Hsub : subl (pops s') (pops s)).
  { rewrite Ep, Ep', app_assoc. apply subl_app; [|apply subl_refl].
    eapply subl_trans; [exact Xs|]. rewrite nzf_app. apply subl_app; [apply subl_refl | apply subl_filter_l]. }
  assert (Hpos : forall o, In o (pops s) -> uop_uid o <> 0).
  { intros o Ho. apply (in_map uop_uid) in Ho. apply (inc_all_gt _ _ _ H3) in Ho. lia. }
  assert (Hin_old : forall o, In o (map entry_op (w_retryq (s_w s)) ++ task_ops t) -> uop_uid o <> 0 -> In o (pops s)).
  { intros o Ho Hz. rewrite Ep, app_assoc. apply in_or_app; left.
    apply in_app_or in Ho as [Ho|Ho]; apply in_or_app; [left; apply in_nzf; auto | right; auto]. }
  assert (Hold_in : forall o, In o (pops s) ->
            In o (map entry_op (w_retryq (s_w s)) ++ task_ops t) \/ In o (flat_map task_ops q)).
  { intros o Ho. rewrite Ep, app_assoc in Ho. apply in_app_or in Ho as [Ho|Ho]; auto.
    left. apply in_app_or in Ho as [Ho|Ho]; apply in_or_app; auto. apply in_nzf in Ho. tauto. }
  split; rewrite ?E5.
  - intros o Ho. apply H1. eapply subl_In; eauto.
  - intros o Ho Hn. unfold wire_of. rewrite E2. destruct (H2 o Ho Hn) as [Ha|Hp].
    + left. eapply (A_mono (s_w s) w); eauto.
    + destruct (Hold_in o Hp) as [Hp'|Hp'].
      * destruct (Xc o Hp') as [X|[X|[X|X]]]; try congruence; auto; try contradiction.
        right. rewrite Ep'. apply in_or_app; left. apply in_nzf. split; auto.
      * right. rewrite Ep'. apply in_or_app; auto.
  - eapply inc_sub; [|exact H3]. apply subl_map. exact Hsub.
  - intros u Hu. rewrite E3 in Hu. destruct (Xd u Hu) as [X|[X|(o & Ho & Eu & Hn)]]; auto.
    destruct (Nat.eq_dec u 0) as [Hz|Hz]; auto.
    right. exists o. splits; auto.
    + apply H1. apply Hin_old; auto. congruence.
    + destruct Hn; [auto | contradiction].
Qed.

Lemma step_Iacct s l s' :
  Iconn s -> Iacct s -> step cfg fp s l = Some s' -> w_hung (s_w s') = false ->
  increasing_from 0 (map uop_uid (s_submitted s')) = true -> Iacct s'.
Proof.
  intros HC HA H Hh Hinc. destruct l.
  3: { (* LTask *)
    apply step_LTask_inv in H. destruct H as (Hh0 & g & Hg & [[_ ->]|(Eg & t & q & k & Eq & Ek & ->)]).
    - eapply Iacct_eq; [| | | |exact HA]; reflexivity.
    - destruct (after_task_w s q (exec_task cfg fp (s_w s) k t) k)
        as (E1 & E2 & E3 & E4 & _ & _ & _ & _ & E5 & E6 & _).
      rewrite E4 in Hh. pose proof (exec_task_X cfg fp k (s_w s) t Hh0 Hh) as X.
      eapply Iacct_task; eauto.
      destruct (ic_mode _ HC g Hg) as [_ Hne]. destruct (ic_cres _ HC (Hne Eg)) as (k' & Ek' & Hi).
      rewrite Ek in Ek'. injection Ek' as <-. exact Hi. }
  1: { (* LSubmit *) cbn [step] in H. injection H as <-. apply (Iacct_submit s _ o); auto. }
  all: pose proof (step_other_wframe _ _ _ _ _ H ltac:(discriminate)) as (F1 & F2 & F3 & _).
  all: cbn [step] in H; destr_step H; try (injection H as <-).
  all: eapply Iacct_eq; [| | | |exact HA]; unfold pops, wire_of in *; sproj; try congruence.
  all: rewrite ?flat_map_app; cbn [flat_map task_ops]; rewrite ?app_nil_r; congruence.
Qed.


Lemma step_submitted s l s' : step cfg fp s l = Some s' -> s_submitted s' = s_submitted s ++ submits [l].
Proof.
  intros H. destruct l.
  3: { apply step_LTask_inv in H. destruct H as (_ & g & _ & [[_ ->]|(_ & t & q & k & _ & _ & ->)]).
       - cbn [submits]. rewrite app_nil_r. reflexivity.
       - destruct (after_task_w s q (exec_task cfg fp (s_w s) k t) k) as (_ & _ & _ & _ & _ & _ & _ & _ & _ & E & _).
         rewrite E. cbn [submits]. rewrite app_nil_r. reflexivity. }
  all: cbn [step] in H; destr_step H; try (injection H as <-); sproj; cbn [submits]; rewrite ?app_nil_r; reflexivity.
Qed.

Lemma step_nrbe s l s' : step cfg fp s l = Some s' -> w_nrbe (s_w s) = false -> w_nrbe (s_w s') = false.
Proof.
  intros H Hn. destruct l; try (apply step_other_wframe in H; [|discriminate];
    destruct H as (_ & _ & _ & _ & _ & E); congruence).
  apply step_LTask_inv in H. destruct H as (_ & g & _ & [[_ ->]|(_ & t & q & k & _ & _ & ->)]); auto.
  destruct (after_task_w s q (exec_task cfg fp (s_w s) k t) k) as (_ & _ & _ & _ & _ & E & _). exact E.
Qed.

Lemma reach_inv : forall ls s, run cfg fp sys0 ls = Some s -> wf_labels ls ->
  s_submitted s = submits ls /\ w_nrbe (s_w s) = false /\ (w_hung (s_w s) = false -> Iconn s /\ Iacct s).
Proof.
  induction ls as [|l ls IH] using rev_ind; intros s Hr Hwf.
  - cbn [run] in Hr. injection Hr as <-. splits; auto. intros _. split; [apply Iconn0 | apply Iacct0].
  - rewrite run_snoc in Hr. destruct (run cfg fp sys0 ls) as [s0|] eqn:Er; [|discriminate].
    assert (Hwf0 : wf_labels ls).
    { unfold wf_labels in *. rewrite submits_app, map_app in Hwf. eapply inc_app_l; eauto. }
    destruct (IH s0 eq_refl Hwf0) as (Es & En & Hinv).
    assert (Es' : s_submitted s = submits (ls ++ [l])).
    { rewrite (step_submitted _ _ _ Hr), Es, submits_app. reflexivity. }
    splits; auto.
    + eapply step_nrbe; eauto.
    + intros Hh. destruct (Hinv (step_hung_mono _ _ _ _ _ Hr Hh)) as [HC HA]. split.
      * eapply step_Iconn; eauto.
      * eapply step_Iacct; eauto. rewrite Es'. exact Hwf.
Qed.

End Inv.

Lemma no_loss : C01_no_loss_stmt.
Proof.
  unfold C01_no_loss_stmt. intros cfg fp ls s Hr Hwf Hh.
  destruct (reach_inv cfg fp ls s Hr Hwf) as (Es & _ & Hinv). destruct (Hinv Hh) as [_ [H1 H2 H3 H4]].
  unfold wf_labels in Hwf. rewrite <- Es in Hwf.
  rewrite pending_pops. splits; auto.
  - intros o Ho Hn. destruct (H2 o Ho Hn); auto. right. apply in_map; auto.
  - intros o Ho Hn Hd. destruct (H4 _ Hd) as [Hz|(o' & Ho' & Eu & Hn')].
    + pose proof (inc_all_gt _ _ _ Hwf (in_map uop_uid _ _ Ho)). lia.
    + assert (o' = o) by (apply (inc_inj uop_uid _ 0 Hwf); auto). congruence.
Qed.
