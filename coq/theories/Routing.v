(* Routing.v — model of acknowledgement routing in the base client.

   Go code modelled:
     client.go:123-200   signaller: five maps  packet id -> waiter channel  (chPubAck, chPubRec,
                         chPubComp, chSubAck, chUnsubAck); PubAck(id)/PubRec(id)/... = look the id
                         up in ONE map, delete it there, return the channel
     serve.go:98-176     the reader goroutine: for an incoming PUBACK/PUBREC/PUBCOMP/SUBACK/UNSUBACK
                         look the waiter up by kind and id, non-blocking send to it
     publish.go:132-228  publishImpl: QoS1 registers chPubAck[id], QoS2 registers chPubRec[id], then
                         writes PUBLISH and waits; QoS2 after PUBREC: register chPubComp[id], write
                         PUBREL, wait for PUBCOMP
     subscribe.go:68-110 register chSubAck[id], write, wait; len(codes) != len(subs) ->
                         Transport.Close + ErrInvalidSubAck; else subs[i].QoS = codes[i] in order
     unsubscribe.go:44-76 register chUnsubAck[id], write, wait

   A waiter channel is private to the call that made it (buffered, capacity 1) and the caller's
   continuation is fixed by the map it sits in, so the state is: per map, id -> (caller, data the
   continuation needs).  The caller's continuation after a signal touches shared state in exactly
   one place: a QoS 2 publish that got PUBREC registers chPubComp[id] from its own goroutine, some
   time after the reader signalled it.  That step is a scheduled event of its own ([Resume h]);
   all other continuations only return, so they are reported at the event that signals them
   ([Done h r] at event t = "h's return with result r is enabled from t on and not before").

   Concurrency: N callers and the reader = one list of events (any interleaving of [Start],
   [Recv], [Resume], [Cancel]).  [Start] = register-THEN-write, atomic with respect to the reader:
   the waiter is registered under sig.mu BEFORE c.write(pkt) (publish.go:147-165,
   subscribe.go:78-84, unsubscribe.go:54-60; PUBREL: publish.go:200-207), and the broker cannot
   answer a request of which no byte has left. So whenever the reader dispatches the
   acknowledgement — with any delay, zero included, i.e. even before Transport.Write has returned
   to the caller — the waiter is already there: the earliest possible position of the own
   acknowledgement in a history is directly after the [Start] (theorem
   C07_ack_right_after_write_completes says it completes the request there). Between registration
   and the end of the write the caller touches nothing shared; an acknowledgement processed in
   between is buffered in the caller's private channel, which the caller reads only after the
   write. (A client that registered AFTER the write would need two events, write and register,
   with the acknowledgement possibly in between and dropped; the correspondence family
   "zero-delay answers" tells the two apart.) *)
From MQ Require Import Base.
Open Scope N_scope.

(* topic filter with requested QoS (in a request) or granted code (in a result) *)
Definition sub := (str * N)%type.

(* the five acknowledgement kinds = the five maps of the signaller *)
Inductive akind := KPubAck | KPubRec | KPubComp | KSubAck | KUnsubAck.

Definition akind_eqb (a b : akind) : bool :=
  match a, b with
  | KPubAck, KPubAck | KPubRec, KPubRec | KPubComp, KPubComp
  | KSubAck, KSubAck | KUnsubAck, KUnsubAck => true
  | _, _ => false
  end.

(* the four blocking requests *)
Inductive rkind := RPub1 | RPub2 | RSub (subs : list sub) | RUnsub.

(* an acknowledgement as parsed by the reader; [a_codes] is meaningful for SUBACK only *)
Record ack := mkAck { a_kind : akind; a_id : N; a_codes : list N }.

Inductive event :=
| Start (h : nat) (rk : rkind) (id : N)   (* caller h: register the first waiter, write the request *)
| Recv (a : ack)                          (* reader: one iteration of serve for an acknowledgement *)
| Resume (h : nat)                        (* caller h (QoS 2, signalled by PUBREC) runs on: register
                                             chPubComp[id], write PUBREL *)
| Cancel (h : nat).                       (* caller h's select takes the ctx.Done() branch (context
                                             cancelled or deadline exceeded): it returns the
                                             context's error; its waiter entry STAYS in the map *)

Inductive result :=
| RSuccess (granted : list sub)   (* nil error; for Subscribe the returned []Subscription *)
| RInvalidSubAck                  (* ErrInvalidSubAck *)
| RClosed                         (* the transport is closed: write error / ErrClosedTransport *)
| RCancelled.                     (* the caller's context error (Canceled / DeadlineExceeded) *)

Inductive out :=
| Done (h : nat) (r : result)     (* caller h returns r *)
| WPubRel (h : nat) (id : N)      (* caller h wrote PUBREL id *)
| Closed.                         (* Transport.Close(): the reader ends, connClosed is closed, every
                                     caller still blocked returns ErrClosedTransport *)

(* ---------- one map of the signaller ---------- *)
Record waiter := mkW { w_h : nat; w_subs : list sub }.
Definition wmap := list (N * waiter).

Fixpoint wm_get (m : wmap) (id : N) : option waiter :=
  match m with
  | [] => None
  | (k, w) :: r => if k =? id then Some w else wm_get r id
  end.

Fixpoint wm_del (m : wmap) (id : N) : wmap :=
  match m with
  | [] => []
  | (k, w) :: r => if k =? id then wm_del r id else (k, w) :: wm_del r id
  end.

(* m[id] = w : overwrites *)
Definition wm_set (m : wmap) (id : N) (w : waiter) : wmap := (id, w) :: wm_del m id.

(* ---------- the signaller ---------- *)
Record sig := mkSig {
  chPubAck : wmap; chPubRec : wmap; chPubComp : wmap; chSubAck : wmap; chUnsubAck : wmap;
  resum : list (nat * N);   (* QoS 2 callers signalled by PUBREC which have not yet run on *)
  live : list nat;          (* callers blocked in their select with an empty channel. This is the
                               callers' side of the state: an entry of a map whose caller is not
                               live is stale — its caller gave up (ctx) and nobody reads the
                               channel any more; the entry stays until an acknowledgement with
                               that identifier takes it out or a registration overwrites it *)
  closed : bool }.

Definition sig_init : sig := mkSig [] [] [] [] [] [] [] false.

Definition smap (s : sig) (k : akind) : wmap :=
  match k with
  | KPubAck => chPubAck s | KPubRec => chPubRec s | KPubComp => chPubComp s
  | KSubAck => chSubAck s | KUnsubAck => chUnsubAck s
  end.

Definition with_map (s : sig) (k : akind) (m : wmap) : sig :=
  match k with
  | KPubAck => mkSig m (chPubRec s) (chPubComp s) (chSubAck s) (chUnsubAck s) (resum s) (live s) (closed s)
  | KPubRec => mkSig (chPubAck s) m (chPubComp s) (chSubAck s) (chUnsubAck s) (resum s) (live s) (closed s)
  | KPubComp => mkSig (chPubAck s) (chPubRec s) m (chSubAck s) (chUnsubAck s) (resum s) (live s) (closed s)
  | KSubAck => mkSig (chPubAck s) (chPubRec s) (chPubComp s) m (chUnsubAck s) (resum s) (live s) (closed s)
  | KUnsubAck => mkSig (chPubAck s) (chPubRec s) (chPubComp s) (chSubAck s) m (resum s) (live s) (closed s)
  end.

Definition with_resum (s : sig) (r : list (nat * N)) : sig :=
  mkSig (chPubAck s) (chPubRec s) (chPubComp s) (chSubAck s) (chUnsubAck s) r (live s) (closed s).

Definition with_live (s : sig) (l : list nat) : sig :=
  mkSig (chPubAck s) (chPubRec s) (chPubComp s) (chSubAck s) (chUnsubAck s) (resum s) l (closed s).

Definition with_closed (s : sig) : sig :=
  mkSig (chPubAck s) (chPubRec s) (chPubComp s) (chSubAck s) (chUnsubAck s) (resum s) (live s) true.

(* sig.chX[id] = ch  under sig.mu *)
Definition register (s : sig) (k : akind) (id : N) (w : waiter) : sig :=
  with_map s k (wm_set (smap s k) id w).

(* signaller.PubAck(id) etc. (client.go:146-200): ch, ok := m[id]; delete(m, id) *)
Definition take (s : sig) (k : akind) (id : N) : option waiter * sig :=
  (wm_get (smap s k) id, with_map s k (wm_del (smap s k) id)).

Fixpoint rs_get (r : list (nat * N)) (h : nat) : option N :=
  match r with
  | [] => None
  | (h', id) :: t => if Nat.eqb h' h then Some id else rs_get t h
  end.

Definition rs_del (r : list (nat * N)) (h : nat) : list (nat * N) :=
  filter (fun p => negb (Nat.eqb (fst p) h)) r.

Definition mem_nat (h : nat) (l : list nat) : bool := existsb (Nat.eqb h) l.

Definition lv_del (l : list nat) (h : nat) : list nat := filter (fun x => negb (Nat.eqb x h)) l.

(* which map the request's first waiter goes to, and what the continuation needs *)
Definition first_kind (rk : rkind) : akind :=
  match rk with RPub1 => KPubAck | RPub2 => KPubRec | RSub _ => KSubAck | RUnsub => KUnsubAck end.

Definition subs_of (rk : rkind) : list sub :=
  match rk with RSub subs => subs | _ => [] end.

(* subscribe.go:104-106: for i < len(codes): subs[i].QoS = codes[i]  (lengths are equal here) *)
Fixpoint grant (subs : list sub) (codes : list N) : list sub :=
  match subs, codes with
  | (t, _) :: sr, c :: cr => (t, c) :: grant sr cr
  | _, _ => []
  end.

Definition step (s : sig) (e : event) : sig * list out :=
  match e with
  | Start h rk id =>
      (* register under sig.mu, then c.write(pkt); on a closed transport the write fails;
         otherwise the caller blocks in its select *)
      let s1 := register s (first_kind rk) id (mkW h (subs_of rk)) in
      if closed s then (s1, [Done h RClosed]) else (with_live s1 (h :: live s1), [])
  | Recv a =>
      if closed s then (s, [])    (* the reader has ended *)
      else
        let '(ow, s1) := take s (a_kind a) (a_id a) in
        match ow with
        | None => (s1, [])        (* no waiter: the acknowledgement is dropped *)
        | Some w =>
            if negb (mem_nat (w_h w) (live s1)) then
              (s1, [])            (* stale entry: the value goes into a channel nobody reads *)
            else
              let s2 := with_live s1 (lv_del (live s1) (w_h w)) in   (* signalled *)
              match a_kind a with
              | KPubAck | KPubComp | KUnsubAck => (s2, [Done (w_h w) (RSuccess [])])
              | KPubRec => (with_resum s2 (resum s2 ++ [(w_h w, a_id a)]), [])
              | KSubAck =>
                  if Nat.eqb (length (a_codes a)) (length (w_subs w))
                  then (s2, [Done (w_h w) (RSuccess (grant (w_subs w) (a_codes a)))])
                  else (with_closed s2, [Done (w_h w) RInvalidSubAck; Closed])
              end
        end
  | Resume h =>
      if closed s then (s, [])
      else
        match rs_get (resum s) h with
        | None => (s, [])
        | Some id =>
            let s1 := register (with_resum s (rs_del (resum s) h)) KPubComp id (mkW h []) in
            (with_live s1 (h :: live s1), [WPubRel h id])
        end
  | Cancel h =>
      if closed s then (s, [])    (* everybody returns ErrClosedTransport anyway *)
      else if mem_nat h (live s) then
        (* blocked in select: return ctx.Err(); nothing is removed from the maps
           (publish.go:183/191/218, subscribe.go:98, unsubscribe.go:73) *)
        (with_live s (lv_del (live s) h), [Done h RCancelled])
      else
        match rs_get (resum s) h with
        | Some _ =>
            (* signalled by PUBREC but not yet running: select may still take ctx.Done() *)
            (with_resum s (rs_del (resum s) h), [Done h RCancelled])
        | None => (s, [])         (* not waiting: nothing to give up *)
        end
  end.

(* outputs per event, in event order *)
Fixpoint run (s : sig) (evs : list event) : list (list out) :=
  match evs with
  | [] => []
  | e :: r => let '(s', o) := step s e in o :: run s' r
  end.

Fixpoint state_after (s : sig) (evs : list event) : sig :=
  match evs with
  | [] => s
  | e :: r => state_after (fst (step s e)) r
  end.

(* ---------- the hypothesis: identifiers of outstanding requests are distinct per kind ---------- *)
Definition wm_has (m : wmap) (id : N) : bool :=
  match wm_get m id with Some _ => true | None => false end.

(* a caller is blocked waiting for exactly this acknowledgement *)
Definition awaited (s : sig) (k : akind) (id : N) : bool :=
  match wm_get (smap s k) id with Some w => mem_nat (w_h w) (live s) | None => false end.

Definition rs_has_id (r : list (nat * N)) (id : N) : bool := existsb (fun p => snd p =? id) r.

(* the identifier is not a key of any waiter map this request is going to use — stale entries
   of requests that gave up included: an identifier stays in use until an acknowledgement has
   taken its entry out (the library itself never re-issues an identifier within 65,535
   allocations, C15) *)
Definition fresh (s : sig) (rk : rkind) (id : N) : bool :=
  match rk with
  | RPub1 => negb (wm_has (chPubAck s) id)
  | RPub2 => negb (wm_has (chPubRec s) id) && negb (rs_has_id (resum s) id) && negb (wm_has (chPubComp s) id)
  | RSub _ => negb (wm_has (chSubAck s) id)
  | RUnsub => negb (wm_has (chUnsubAck s) id)
  end.

(* every Start uses a new caller handle and an identifier which no outstanding request of its
   kind holds (what C15 provides for library-chosen identifiers, and what the caller must provide
   for identifiers it sets itself) *)
Fixpoint wf_from (s : sig) (used : list nat) (evs : list event) : bool :=
  match evs with
  | [] => true
  | e :: r =>
      match e with
      | Start h rk id => negb (mem_nat h used) && fresh s rk id && wf_from (fst (step s e)) (h :: used) r
      | _ => wf_from (fst (step s e)) used r
      end
  end.

Definition wf (evs : list event) : bool := wf_from sig_init [] evs.

(* ---------- the specification: one request seen alone ---------- *)
(* What a single request does when it sees only its own events: its Start, acknowledgements of
   the kind it is waiting for carrying its identifier, and its own Resume. Everything else is
   ignored by definition. [closing] says whether the transport is closed at this event. *)
Inductive phase :=
| PNone                                          (* not started *)
| PWait (k : akind) (id : N) (subs : list sub)   (* waiting for an acknowledgement of kind k, id *)
| PResum (id : N)                                (* got PUBREC, has not yet registered for PUBCOMP *)
| PFin.                                          (* returned *)

Definition react (h : nat) (p : phase) (e : event) : phase * list out :=
  match p, e with
  | PNone, Start h' rk id =>
      if Nat.eqb h' h then (PWait (first_kind rk) id (subs_of rk), []) else (p, [])
  | PWait k id subs, Recv a =>
      if akind_eqb (a_kind a) k && (a_id a =? id) then
        match k with
        | KPubAck | KPubComp | KUnsubAck => (PFin, [Done h (RSuccess [])])
        | KPubRec => (PResum id, [])
        | KSubAck =>
            if Nat.eqb (length (a_codes a)) (length subs)
            then (PFin, [Done h (RSuccess (grant subs (a_codes a)))])
            else (PFin, [Done h RInvalidSubAck])
        end
      else (p, [])
  | PResum id, Resume h' =>
      if Nat.eqb h' h then (PWait KPubComp id [], [WPubRel h id]) else (p, [])
  | PWait _ _ _, Cancel h' | PResum _, Cancel h' =>
      if Nat.eqb h' h then (PFin, [Done h RCancelled]) else (p, [])
  | _, _ => (p, [])
  end.

(* spec state: phase, and whether the transport has been closed *)
Definition spec_step (h : nat) (st : phase * bool) (e : event) (closing : bool) : (phase * bool) * list out :=
  let '(p, cl) := st in
  if cl then
    match e with
    | Start h' _ _ => if Nat.eqb h' h then ((PFin, true), [Done h RClosed]) else (st, [])
    | _ => (st, [])
    end
  else
    let '(p', o) := react h p e in ((p', closing), o).

Fixpoint spec_run (h : nat) (st : phase * bool) (evs : list event) (cls : list bool) : list (list out) :=
  match evs, cls with
  | e :: r, c :: cr => let '(st', o) := spec_step h st e c in o :: spec_run h st' r cr
  | _, _ => []
  end.

(* ---------- vocabulary of the statements ---------- *)
(* e is an acknowledgement of kind k carrying identifier id *)
Definition own_ack (k : akind) (id : N) (e : event) : bool :=
  match e with Recv a => akind_eqb (a_kind a) k && (a_id a =? id) | _ => false end.

(* the acknowledgement kinds a request waits for, in order *)
Definition chain (rk : rkind) : list akind :=
  match rk with
  | RPub1 => [KPubAck] | RPub2 => [KPubRec; KPubComp] | RSub _ => [KSubAck] | RUnsub => [KUnsubAck]
  end.

(* what the request returns when its (last) acknowledgement is a *)
Definition ack_result (rk : rkind) (a : ack) : result :=
  match rk with
  | RSub subs =>
      if Nat.eqb (length (a_codes a)) (length subs) then RSuccess (grant subs (a_codes a)) else RInvalidSubAck
  | _ => RSuccess []
  end.

(* the event at a position is an acknowledgement of kind k carrying id *)
Definition is_ack (k : akind) (id : N) (oe : option event) : Prop :=
  exists a, oe = Some (Recv a) /\ a_kind a = k /\ a_id a = id.

(* request h returning success with result g at event t is justified by the history: it was
   started earlier, and event t is the acknowledgement of its kind carrying its identifier — for
   QoS 2 the PUBCOMP, preceded (after the Start) by its PUBREC and then its own Resume, in this
   order; for Subscribe the SUBACK has one code per filter and g is the filters with these codes *)
Definition justified (evs : list event) (h : nat) (g : list sub) (t : nat) : Prop :=
  exists p rk id, (p < t)%nat /\ nth_error evs p = Some (Start h rk id) /\
    match rk with
    | RPub1 => g = [] /\ is_ack KPubAck id (nth_error evs t)
    | RPub2 => g = [] /\ is_ack KPubComp id (nth_error evs t) /\
               exists t1 t2, (p < t1)%nat /\ (t1 < t2)%nat /\ (t2 < t)%nat /\
                 is_ack KPubRec id (nth_error evs t1) /\ nth_error evs t2 = Some (Resume h)
    | RSub subs => exists a, nth_error evs t = Some (Recv a) /\ a_kind a = KSubAck /\ a_id a = id /\
                   length (a_codes a) = length subs /\ g = grant subs (a_codes a)
    | RUnsub => g = [] /\ is_ack KUnsubAck id (nth_error evs t)
    end.

(* no Start of handle h *)
Definition no_start (h : nat) (evs : list event) : Prop := forall rk id, ~ In (Start h rk id) evs.

(* ---------- projections used by the statements ---------- *)
Definition concerns (h : nat) (o : out) : bool :=
  match o with
  | Done h' _ => Nat.eqb h' h
  | WPubRel h' _ => Nat.eqb h' h
  | Closed => false
  end.

Definition view (h : nat) (outs : list (list out)) : list (list out) := map (filter (concerns h)) outs.

Definition is_closed (o : out) : bool := match o with Closed => true | _ => false end.
Definition closings (outs : list (list out)) : list bool := map (existsb is_closed) outs.

(* ---------- decidable equalities for the correspondence ---------- *)
Definition sub_eqb (a b : sub) : bool := str_eqb (fst a) (fst b) && (snd a =? snd b).

Definition result_eqb (a b : result) : bool :=
  match a, b with
  | RSuccess x, RSuccess y => list_eqb sub_eqb x y
  | RInvalidSubAck, RInvalidSubAck | RClosed, RClosed | RCancelled, RCancelled => true
  | _, _ => false
  end.
