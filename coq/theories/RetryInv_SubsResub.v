(* RetryInv_SubsResub.v — C08_resub_only_subscribed: a SUBSCRIBE with ghost uid 0 (a re-subscription)
   only names filters the application subscribed at some time, and is only written once the reconnect
   loop is initialised (i.e. never on the first accepted connection).

   Invariant (no assumption on the fault plan): relative to the submitted calls [subm] and the flag
   [ini], every SUBSCRIBE on the wire, every subscribe entry of the retry queue and every subscribe
   task names only filters subscribed by some call of [subm], and carries uid 0 only if [ini];
   every filter of subEstablished was subscribed by some call of [subm]. *)
From MQ Require Import Base RetryCore RetrySys CheckRetry RetryProps RetryInv_SubsMap RetryInv_SubsExec.
Open Scope nat_scope.

Section Ctx.
Variable subm : list uop.
Variable ini : bool.

Definition okss (ss : list sub) : Prop := forall x, In x ss -> ever_subscribed (fst x) subm = true.
Definition okreq (u : nat) (ss : list sub) : Prop := okss ss /\ (u = 0 -> ini = true).
Definition okp (p : pkt) : Prop := match p with PSubscribe u ss => okreq u ss | _ => True end.
Definition okw (e : nat * pkt * wres) : Prop := okp (snd (fst e)).
Definition oke (e : rentry) : Prop :=
  match e with RSubscribe u ss | DSubscribe u ss => okreq u ss | _ => True end.
Definition okt (x : task) : Prop :=
  match x with
  | TOp (USub u ss) => okss ss /\ u <> 0
  | TResub => ini = true
  | _ => True
  end.

Definition RInv (w : world) : Prop :=
  Forall okw (w_wire w) /\ Forall oke (w_retryq w) /\ okss (w_subest w).

Lemma okss_est_remove t l : okss l -> okss (est_remove t l).
Proof.
  intros H x Hx. apply H. rewrite est_remove_eq in Hx. destruct x as [a q]. apply In_subs_remove in Hx. apply Hx.
Qed.
Lemma okss_est_sub l s : okss l -> okss [s] -> okss (est_sub l s).
Proof.
  intros H Hs x Hx. unfold est_sub in Hx. apply in_app_or in Hx as [Hx|Hx].
  - exact (okss_est_remove (fst s) l H x Hx).
  - apply Hs, Hx.
Qed.
Lemma okss_est_apply_subs ss : forall l, okss l -> okss ss -> okss (est_apply_subs l ss).
Proof.
  unfold est_apply_subs. induction ss as [|s r IH]; intros l Hl Hs; cbn [fold_left]; [exact Hl|].
  apply IH.
  - apply okss_est_sub; [exact Hl|]. intros x [<-|[]]. apply Hs. left; reflexivity.
  - intros x Hx. apply Hs. right; exact Hx.
Qed.
Lemma okss_est_apply_unsubs ts : forall l, okss l -> okss (est_apply_unsubs l ts).
Proof.
  unfold est_apply_unsubs. induction ts as [|t r IH]; intros l Hl; cbn [fold_left]; [exact Hl|].
  apply IH, okss_est_remove, Hl.
Qed.

Section Exec.
Variable cfg : config.
Variable fp : fplan.

Lemma send_shape w k p : exists res,
  w_wire (fst (send cfg fp w k p)) = w_wire w ++ [(k, p, res)] /\
  w_retryq (fst (send cfg fp w k p)) = w_retryq w /\
  w_subest (fst (send cfg fp w k p)) = w_subest w.
Proof.
  unfold send. destruct (negb (cl_alive (get_client w k))); [eexists; repeat split; reflexivity|].
  destruct (if cl_accepted (get_client w k) then fp k (cl_sent (get_client w k)) else FLostAfter);
    eexists; repeat split; reflexivity.
Qed.

Lemma send_rinv w k p : RInv w -> okp p -> RInv (fst (send cfg fp w k p)).
Proof.
  intros (A & B & C) Hp. destruct (send_shape w k p) as (res & E1 & E2 & E3).
  unfold RInv. rewrite E1, E2, E3. split; [|split; assumption].
  apply Forall_app. split; [exact A|]. repeat constructor. exact Hp.
Qed.

Lemma RInv_same w w' :
  w_wire w' = w_wire w -> w_retryq w' = w_retryq w -> w_subest w' = w_subest w -> RInv w -> RInv w'.
Proof. intros E1 E2 E3. unfold RInv. rewrite E1, E2, E3. auto. Qed.

Lemma RInv_queue w e : RInv w -> oke e -> forall cls, RInv (queue_retry (on_error w cls) e).
Proof.
  intros (A & B & C) He cls. unfold RInv. wsimpl. split; [exact A|]. split; [|exact C].
  apply Forall_app. split; [exact B | repeat constructor; exact He].
Qed.

(* the result of an attempt: the world stays good and a returned handle is good *)
Definition att_ok (e0 : rentry) (wr : world * ares) : Prop :=
  RInv (fst wr) /\ forall e cls, snd wr = AFail e cls -> oke e.

Lemma attempt_req_rinv w k p uid e : RInv w -> okp p -> oke e -> att_ok e (attempt_req cfg fp w k p uid e).
Proof.
  intros HR Hp He. unfold attempt_req. destruct (negb (cl_inited (get_client w k))).
  - split; [exact HR | intros; discriminate].
  - pose proof (send_rinv w k p HR Hp) as H1. destruct (send cfg fp w k p) as [w1 c]. cbn [fst] in H1.
    destruct c; cbn [fst snd]; split;
      try (intros e' cls X; first [discriminate X | injection X as <- <-; exact He]);
      try exact H1; try (eapply RInv_same; [| | |exact H1]; reflexivity).
Qed.

Lemma attempt_pubrel_rinv w k m : RInv w -> att_ok (RPubRel m) (attempt_pubrel cfg fp w k m).
Proof.
  intros HR. unfold attempt_pubrel. destruct (negb (cl_inited (get_client w k))).
  - split; [exact HR | intros; discriminate].
  - pose proof (send_rinv w k (PPubRel (p_uid m)) HR I) as H1.
    destruct (send cfg fp w k (PPubRel (p_uid m))) as [w1 c]. cbn [fst] in H1.
    destruct c; cbn [fst snd]; split;
      try (intros e' cls X; first [discriminate X | injection X as <- <-; exact I]);
      try exact H1; try (eapply RInv_same; [| | |exact H1]; reflexivity).
Qed.

Lemma attempt_publish_rinv w k m d : RInv w -> att_ok (RPublish m) (attempt_publish cfg fp w k m d).
Proof.
  intros HR. unfold attempt_publish. destruct (negb (cl_inited (get_client w k))).
  - split; [exact HR | intros; discriminate].
  - pose proof (send_rinv w k (PPublish m d) HR I) as H1.
    destruct (send cfg fp w k (PPublish m d)) as [w1 c]. cbn [fst] in H1.
    destruct (p_qos m =? 0)%N; [|destruct (p_qos m =? 1)%N].
    + destruct c; cbn [fst snd]; split; try exact H1; intros; discriminate.
    + destruct c; cbn [fst snd]; split;
        try (intros e' cls X; first [discriminate X | injection X as <- <-; exact I]);
        try exact H1; try (eapply RInv_same; [| | |exact H1]; reflexivity).
    + destruct c; try apply attempt_pubrel_rinv; try exact H1; cbn [fst snd]; split;
        try (intros e' cls X; first [discriminate X | injection X as <- <-; exact I]);
        try exact H1; try (eapply RInv_same; [| | |exact H1]; reflexivity).
Qed.

Lemma settle_rinv uid e0 wr : att_ok e0 wr -> RInv (settle uid wr).
Proof.
  destruct wr as [w r]. intros [H1 H2]. cbn [fst snd] in *. destruct r; cbn [settle]; try exact H1.
  apply RInv_queue; [exact H1 | eapply H2; reflexivity].
Qed.

Lemma do_publish_rinv w k m : RInv w -> RInv (do_publish cfg fp w k m).
Proof. intros H. unfold do_publish. eapply settle_rinv, attempt_publish_rinv, H. Qed.

Lemma do_subscribe_rinv w k u ss : RInv w -> okreq u ss -> RInv (do_subscribe cfg fp w k u ss).
Proof.
  intros (A & B & C) H. unfold do_subscribe. rewrite attempt_subscribe_req.
  eapply settle_rinv, attempt_req_rinv; [|exact H|exact H].
  split; [exact A|]. split; [exact B|]. wsimpl. apply okss_est_apply_subs; [exact C | apply H].
Qed.

Lemma do_unsubscribe_rinv w k u ts : RInv w -> RInv (do_unsubscribe cfg fp w k u ts).
Proof.
  intros (A & B & C). unfold do_unsubscribe. rewrite attempt_unsubscribe_req.
  eapply settle_rinv, attempt_req_rinv; [|exact I|exact I].
  split; [exact A|]. split; [exact B|]. wsimpl. apply okss_est_apply_unsubs, C.
Qed.

Lemma RInv_defer w e : RInv w -> oke e -> RInv (set_retryq w (w_retryq w ++ [e])).
Proof.
  intros (A & B & C) He. split; [exact A|]. split; [|exact C]. wsimpl.
  apply Forall_app. split; [exact B | repeat constructor; exact He].
Qed.

Lemma task_subscribe_rinv w k u ss : RInv w -> okreq u ss -> RInv (task_subscribe cfg fp w k u ss).
Proof.
  intros HR H. unfold task_subscribe. destruct (w_retryq w) eqn:E.
  - apply do_subscribe_rinv; assumption.
  - rewrite <- E. apply RInv_defer; assumption.
Qed.

Lemma run_entry_rinv w k e : RInv w -> oke e -> att_ok e (run_entry cfg fp w k e).
Proof.
  intros HR He. destruct e; cbn [run_entry].
  - apply attempt_publish_rinv, HR.
  - apply attempt_pubrel_rinv, HR.
  - rewrite attempt_subscribe_req. apply attempt_req_rinv; assumption.
  - rewrite attempt_unsubscribe_req. apply attempt_req_rinv; auto; exact I.
  - split; [apply do_publish_rinv, HR | intros; discriminate].
  - split; [apply do_subscribe_rinv; assumption | intros; discriminate].
  - split; [apply do_unsubscribe_rinv, HR | intros; discriminate].
Qed.

Lemma retry_loop_rinv old : forall w k, RInv w -> Forall oke old -> RInv (retry_loop cfg fp w k old).
Proof.
  induction old as [|e rest IH]; intros w k HR Ho; cbn [retry_loop]; [exact HR|].
  inversion Ho as [|? ? He Hrest]; subst.
  pose proof (run_entry_rinv w k e HR He) as [H1 H2]. destruct (run_entry cfg fp w k e) as [w1 r]. cbn [fst snd] in *.
  destruct (w_hung w1); [exact H1|].
  destruct r.
  - apply IH; assumption.
  - pose proof (RInv_queue w1 e0 H1 (H2 _ _ eq_refl) cls) as (A & B & C).
    split; [exact A|]. split; [|exact C]. wsimpl. apply Forall_app. split; [exact B | exact Hrest].
  - apply IH; [|exact Hrest]. eapply RInv_same; [| | |exact H1]; reflexivity.
  - apply IH; assumption.
Qed.

Lemma resub_fold_rinv old : forall w k, ini = true -> RInv w -> okss old ->
  RInv (fold_left (fun w s => if w_hung w then w else task_subscribe cfg fp w k 0 [s]) old w).
Proof.
  induction old as [|s rest IH]; intros w k Hi HR Ho; cbn [fold_left]; [exact HR|].
  apply IH; [exact Hi | | intros x Hx; apply Ho; right; exact Hx].
  destruct (w_hung w); [exact HR|]. apply task_subscribe_rinv; [exact HR|].
  split; [|auto]. intros x [<-|[]]. apply Ho. left; reflexivity.
Qed.

Lemma exec_task_rinv w k x : RInv w -> okt x -> RInv (exec_task cfg fp w k x).
Proof.
  intros HR Hx. destruct x as [[m|u ss|u ts]| |]; cbn [exec_task].
  - unfold task_publish. destruct (w_retryq w) eqn:E; [apply do_publish_rinv, HR|]. rewrite <- E.
    destruct (0 <? p_qos m)%N; [apply RInv_defer; [exact HR | exact I] | exact HR].
  - apply task_subscribe_rinv; [exact HR|]. destruct Hx as [H1 H2]. split; [exact H1 | intros; contradiction].
  - unfold task_unsubscribe. destruct (w_retryq w) eqn:E; [apply do_unsubscribe_rinv, HR|]. rewrite <- E.
    apply RInv_defer; [exact HR | exact I].
  - unfold task_resubscribe. destruct HR as (A & B & C).
    set (w0 := set_retryq (set_subest w []) []).
    assert (H0 : RInv w0) by (split; [exact A | split; [constructor | intros x []]]).
    pose proof (resub_fold_rinv (w_subest w) w0 k Hx H0 C) as (A1 & B1 & C1).
    split; [exact A1|]. split; [|exact C1]. wsimpl. apply Forall_app. split; [exact B1 | exact B].
  - unfold task_retry. destruct HR as (A & B & C). apply retry_loop_rinv; [|exact B].
    split; [exact A | split; [constructor | exact C]].
Qed.

End Exec.
End Ctx.

(* ---------- monotone in the context ---------- *)
Lemma ever_subscribed_app t a b : ever_subscribed t (a ++ b) = ever_subscribed t a || ever_subscribed t b.
Proof. unfold ever_subscribed. apply existsb_app. Qed.

Lemma okss_mono subm subm' ss : (forall t, ever_subscribed t subm = true -> ever_subscribed t subm' = true) ->
  okss subm ss -> okss subm' ss.
Proof. intros H Hs x Hx. apply H, Hs, Hx. Qed.

Lemma okreq_mono subm ini subm' ini' u ss :
  (forall t, ever_subscribed t subm = true -> ever_subscribed t subm' = true) -> (ini = true -> ini' = true) ->
  okreq subm ini u ss -> okreq subm' ini' u ss.
Proof. intros H Hi [A B]. split; [eapply okss_mono; eauto | auto]. Qed.

Lemma RInv_mono subm ini subm' ini' w :
  (forall t, ever_subscribed t subm = true -> ever_subscribed t subm' = true) -> (ini = true -> ini' = true) ->
  RInv subm ini w -> RInv subm' ini' w.
Proof.
  intros H Hi (A & B & C). split; [|split].
  - eapply Forall_impl; [|exact A]. intros [[k p] r]. unfold okw. cbn [fst snd]. destruct p; cbn [okp]; auto.
    eapply okreq_mono; eauto.
  - eapply Forall_impl; [|exact B]. intros e. destruct e; cbn [oke]; auto; eapply okreq_mono; eauto.
  - eapply okss_mono; eauto.
Qed.

Lemma okt_mono subm ini subm' ini' x :
  (forall t, ever_subscribed t subm = true -> ever_subscribed t subm' = true) -> (ini = true -> ini' = true) ->
  okt subm ini x -> okt subm' ini' x.
Proof.
  intros H Hi. destruct x as [[m|u ss|u ts]| |]; cbn [okt]; auto.
  intros [A B]. split; [eapply okss_mono; eauto | exact B].
Qed.

(* ---------- the system invariant ---------- *)
Definition SInv (s : sys) : Prop :=
  RInv (s_submitted s) (s_initialized s) (s_w s) /\ Forall (okt (s_submitted s) (s_initialized s)) (s_taskq s).

Lemma SInv_sys0 : SInv sys0.
Proof. split; [|constructor]. split; [constructor | split; [constructor | intros x []]]. Qed.

Lemma RInv_clients subm ini w w' :
  w_wire w' = w_wire w -> w_retryq w' = w_retryq w -> w_subest w' = w_subest w ->
  RInv subm ini w -> RInv subm ini w'.
Proof. intros E1 E2 E3. unfold RInv. rewrite E1, E2, E3. auto. Qed.

Lemma step_sinv cfg fp s l s' :
  SInv s -> (forall o, l = LSubmit o -> uop_uid o <> 0) -> step cfg fp s l = Some s' -> SInv s'.
Proof.
  intros [HR HT] Hl. destruct l; cbn [step].
  - (* LSubmit *)
    intros H; injection H as <-. unfold SInv. cbn [s_w s_submitted s_initialized s_taskq].
    assert (Hm : forall t, ever_subscribed t (s_submitted s) = true -> ever_subscribed t (s_submitted s ++ [o]) = true).
    { intros t H. rewrite ever_subscribed_app, H. reflexivity. }
    split; [eapply RInv_mono; [| |exact HR]; auto|].
    apply Forall_app. split.
    + eapply Forall_impl; [|exact HT]. intros x. apply okt_mono; auto.
    + repeat constructor. destruct o as [m|u ss|u ts]; cbn [okt]; auto.
      split; [|exact (Hl _ eq_refl)].
      intros x Hx. rewrite ever_subscribed_app. apply orb_true_iff. right. cbn. rewrite orb_false_r.
      apply existsb_exists. exists x. split; [exact Hx | apply str_eqb_refl].
  - (* LObserve *)
    destruct (s_tmode s); [|discriminate].
    destruct ((0 <? g) && ((g <? s_gen s) || (g =? s_gen s) && match s_cres s with CrPending => false | _ => true end));
      [|discriminate].
    intros H; injection H as <-. split; assumption.
  - (* LTask *)
    destruct (w_hung (s_w s)); [discriminate|]. destruct (s_tmode s) as [|g]; [discriminate|].
    destruct (negb (g =? s_gen s)); [intros H; injection H as <-; split; assumption|].
    destruct (s_taskq s) as [|x q] eqn:Eq; [discriminate|]. destruct (s_cur s) as [k|]; [|discriminate].
    inversion HT as [|? ? Hx Hq]; subst.
    pose proof (exec_task_rinv _ _ cfg fp (s_w s) k x HR Hx) as H1.
    destruct (w_nrbe (exec_task cfg fp (s_w s) k x)); intros H; injection H as <-; split; try exact Hq; exact H1.
  - (* LDial *)
    destruct (s_pc s); try discriminate. destruct ok; intros H; injection H as <-; split; try assumption.
  - destruct (s_pc s); try discriminate. intros H; injection H as <-; split; assumption.
  - destruct (s_pc s); try discriminate. intros H; injection H as <-; split; try assumption.
  - (* LConnEnd *)
    destruct (s_pc s); try discriminate. destruct o as [sp| | |].
    + destruct (cl_alive (get_client (s_w s) k)); [|discriminate]. intros H; injection H as <-; split; try assumption.
      destruct sp; exact HR.
    + intros H; injection H as <-; split; try assumption.
    + intros H; injection H as <-; split; try assumption.
    + intros H; injection H as <-; split; assumption.
  - (* LPushResub *)
    destruct (s_pc s); try discriminate.
    destruct (s_initialized s && (negb sp || c_always_resub cfg)) eqn:Ec; intros H; injection H as <-; split; try assumption.
    unfold SInv. cbn [s_w s_submitted s_initialized s_taskq set_taskq set_pc].
    apply Forall_app. split; [exact HT|]. repeat constructor. cbn [okt]. apply andb_true_iff in Ec. apply Ec.
  - (* LPushRetry *)
    destruct (s_pc s); try discriminate. intros H; injection H as <-. unfold SInv. cbn [s_w s_submitted s_initialized s_taskq].
    split; [eapply RInv_mono; [| |exact HR]; auto|].
    apply Forall_app. split; [|repeat constructor].
    eapply Forall_impl; [|exact HT]. intros x. apply okt_mono; auto.
  - destruct (s_pc s); try discriminate. destruct (cl_alive (get_client (s_w s) k)); [discriminate|].
    intros H; injection H as <-; split; assumption.
  - destruct (s_pc s); try discriminate. intros H; injection H as <-; split; try assumption.
  - destruct (s_pc s); try discriminate. intros H; injection H as <-; split; assumption.
  - destruct (s_pc s); try discriminate. destruct (cl_alive (get_client (s_w s) k)); [|discriminate].
    intros H; injection H as <-; split; try assumption.
Qed.

Lemma increasing_from_pos l : forall lo, increasing_from lo l = true -> Forall (fun u => u <> 0) l.
Proof.
  induction l as [|x r IH]; intros lo H; [constructor|]. cbn [increasing_from] in H.
  apply andb_true_iff in H as [H1 H2]. constructor; [lia | eapply IH; eauto].
Qed.

Lemma run_sinv cfg fp ls : forall s s',
  SInv s -> Forall (fun u => u <> 0) (map uop_uid (submits ls)) -> run cfg fp s ls = Some s' -> SInv s'.
Proof.
  induction ls as [|l ls IH]; intros s s' HI Hu; cbn [run].
  - intros H; injection H as <-. exact HI.
  - destruct (step cfg fp s l) as [s1|] eqn:Es; [|discriminate]. apply IH.
    + eapply step_sinv; [exact HI | | exact Es]. intros o ->. cbn [submits map] in Hu. inversion Hu; assumption.
    + destruct l; cbn [submits map] in Hu; try exact Hu. inversion Hu; assumption.
Qed.

Lemma C08_resub_only_subscribed : C08_resub_only_subscribed_stmt.
Proof.
  unfold C08_resub_only_subscribed_stmt. intros cfg fp ls s Hrun Hwf k ss r Hin.
  pose proof (run_sinv cfg fp ls sys0 s SInv_sys0 (increasing_from_pos _ _ Hwf) Hrun) as [(A & _) _].
  unfold wire_of in Hin. rewrite Forall_forall in A. specialize (A _ Hin). unfold okw in A. cbn in A.
  destruct A as [A1 A2]. split; [apply A2; reflexivity | exact A1].
Qed.
