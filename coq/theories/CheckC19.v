(* CheckC19.v — executable comparison functions for the C19 correspondence cases.
   V_* : the property's predicate (Errors.v, SPECIFICATION part) is false on what the implementation did.
   M_* : the model (Errors.v) predicts something else than the implementation did. *)
From MQ Require Import Base Codec Errors.
Open Scope N_scope.

(* ---------- family "chain": errors.Is / errors.As on values built from the real constructors
   and returned by real failing calls ---------- *)
Inductive tdesc :=
| TSent (s : sentinel)
| TNil
| TSub (id : nat)            (* the value the harness built at the node with this id *)
| TFresh (k : N) (i : nat)   (* a value of kind k that is not part of the chain *)
| TTwin (id : nat)           (* the hand-made wrapper at node id built a SECOND time: identical fields and
                                inner values, but new allocations — a look-alike, not part of the chain *)
| TUncmp.

Fixpoint find_sub (id : nat) (d : desc) : option desc :=
  match d with
  | DLib i d' | DFmt i d' | DConn i _ d' | DPtrErrField i d' | DCall i _ d' =>
      if Nat.eqb i id then Some d else find_sub id d'
  | DPtrNoErr i | DPtrErrNotError i | DPtrNonStruct i => if Nat.eqb i id then Some d else None
  | _ => None
  end.

Definition tbuild (d : desc) (t : tdesc) : err :=
  match t with
  | TSent s => ESent s
  | TNil => ENil
  | TSub id => match find_sub id d with Some d' => build d' | None => EVal 424242 end
  | TTwin id => match find_sub id d with Some d' => retag 3000 (build d') | None => EVal 424243 end
  | TFresh k i =>
      if k =? 0 then ELib (2000 + i) (ESent (SOther 77))
      else if k =? 1 then EFmt (2000 + i) (ESent (SOther 77))
      else if k =? 2 then EPtrNoErr (2000 + i)
      else if k =? 3 then EVal 99
      else if k =? 5 then EVal (100000 + N.of_nat i)   (* a struct value holding its own pointer: == only to itself *)
      else EConn (2000 + i) 1 (ESent SConnectionFailed)
  | TUncmp => EUncmp 7
  end.

Definition res_code (r : res) : N := match r with RFalse => 0 | RTrue => 1 | RPanic => 2 end.

(* the targets every case is evaluated against, in this order: the 15 documented sentinels, three
   foreign errors.New values, nil, five values that are not part of the chain, an uncomparable value *)
Definition std_targets : list tdesc :=
  map TSent documented_sentinels ++ [TSent (SOther 0); TSent (SOther 1); TSent (SOther 2)]
  ++ map (fun s => TSent (twin_of s)) documented_sentinels     (* foreign errors.New values with the sentinels' texts *)
  ++ [TNil; TFresh 0 0; TFresh 1 1; TFresh 2 2; TFresh 3 3; TFresh 4 4; TFresh 5 5; TUncmp].

(* one case: how the value was built; errors.Is against each standard target (0 false, 1 true,
   2 panic); errors.Is against the values built at the listed nodes of the description itself;
   then [errors.As RequestTimeoutError; As ErrorWithRetry; As ConnectionError; As Error;
   err.(ErrorWithRetry); err == io.EOF; err.Error() panicked] *)
Definition chain_case := (desc * list N * list (nat * N) * list bool * list N * list (nat * N))%type.
(* very last component: errors.Is against second builds (TTwin) of hand-made wrapper nodes *)
(* last component: the Is method called directly against the standard targets; [] if the value has none *)

Definition as_kinds : list askind := [AsReqTimeout; AsWithRetry; AsConn; AsLib].
Definition bool_list_eqb := list_eqb Bool.eqb.
Definition n_list_eqb := list_eqb N.eqb.

Definition targets_of (c : chain_case) : list (tdesc * N) :=
  let '(d, std, subs, flags, meth, twins) := c in
  combine std_targets std ++ map (fun p => (TSub (fst p), snd p)) subs ++ map (fun p => (TTwin (fst p), snd p)) twins.

Definition method_codes (d : desc) : list N :=
  let e := build d in
  match method_is e ENil with
  | None => []
  | Some _ => map (fun t => match method_is e (tbuild d t) with Some r => res_code r | None => 3 end) std_targets
  end.

Definition chain_model_ok (c : chain_case) : bool :=
  let '(d, std, subs, flags, meth, twins) := c in
  let e := build d in
  (length std =? length std_targets)%nat
  && forallb (fun tn => res_code (errors_is e (tbuild d (fst tn))) =? snd tn) (targets_of c)
  && bool_list_eqb (map (fun k => errors_as k e) as_kinds ++ [implements_retry e; is_bare_eof e; error_panics e]) flags
  && n_list_eqb (method_codes d) meth.

(* --- the property on the observations, from the description alone --- *)
(* the library's calls pass io.EOF through unwrapped *)
Fixpoint spec_bare_eof (d : desc) : bool :=
  match d with
  | DSent SEOF => true
  | DCall _ ck c =>
      match ck with
      | CkServe n => n =? 0
      | CkRetryPing true FCtx1 => false      (* wrapped in a RequestTimeoutError first *)
      | _ => uses_cause ck && spec_bare_eof c
      end
  | _ => false
  end.

(* the value is what an interrupted QoS>=1 publish / subscribe / unsubscribe returned, and the
   cause was not io.EOF itself *)
Definition spec_must_retry (d : desc) : bool :=
  match d with
  | DCall _ (CkReq k _) _ => retryable_kind k && negb (spec_bare_eof d)
  | DCall _ (CkRetryTimeout k) _ => retryable_kind k
  | DCall _ (CkRetryRetx k _ _) _ => retryable_kind k
  | DCall _ (CkRetryClosed k _) _ => retryable_kind k
  | _ => false
  end.

(* built by hand from the constructors only (no library call inside): [build] is a transcription *)
Fixpoint hand_made (d : desc) : bool :=
  match d with
  | DCall _ _ _ => false
  | DLib _ d' | DFmt _ d' | DConn _ _ d' | DPtrErrField _ d' => hand_made d'
  | _ => true
  end.

Definition sent_target_ok (d : desc) (tn : tdesc * N) : bool :=
  match fst tn with
  | TSent s =>
      (* never a sentinel that is not there, whatever the value *)
      (if snd tn =? 1 then mentions s d else true)
      (* exactly the sentinel at the bottom, and no panic, for the chains the property speaks about *)
      && (if shaped d then snd tn =? (if leaf_is s (spec_leaf d) then 1 else 0) else true)
      (* also through foreign wrappers exposing an Err field below a library wrapper *)
      && (if hand_made d && ext_chain (build d) then snd tn =? (if occurs_sent s (build d) then 1 else 0) else true)
  (* a value that is not part of the chain — made afresh, or a second build of one of the chain's own
     wrappers, equal in content — is never reported (and on property-shaped chains nothing panics) *)
  | TFresh _ _ | TTwin _ => negb (snd tn =? 1) && (if shaped d then snd tn =? 0 else true)
  | _ => true
  end.

Definition chain_spec_ok (c : chain_case) : bool :=
  let '(d, std, subs, flags, meth, twins) := c in
  forallb (sent_target_ok d) (targets_of c)
  && forallb (sent_target_ok d) (combine std_targets meth)     (* the Is method itself must say the same *)
  && (if shaped d then
        (if spec_bare_eof d then nth 5 flags false else true)                  (* io.EOF passed through unwrapped *)
        && Bool.eqb (nth 0 flags false) (spec_has_rt d)      (* RequestTimeoutError iff a response timeout expired *)
        && negb (nth 6 flags true)                           (* err.Error() does not panic *)
        && (if spec_must_retry d then nth 4 flags false && nth 1 flags false else true)  (* implements ErrorWithRetry *)
      else true).

Definition c19_chain_violations (cs : list chain_case) : list nat := indices_where (fun c => negb (chain_spec_ok c)) cs.
Definition c19_chain_mismatches (cs : list chain_case) : list nat := indices_where (fun c => negb (chain_model_ok c)) cs.

(* ---------- family "retry": request x failure step x cause, then Retry on fresh clients ---------- *)
(* an attempt as the harness describes it: client number, the identifier that client handed out
   (read off the wire; for PUBLISH with a preset identifier it is unused), where it is interrupted *)
Definition att_desc := (nat * N * option fstep * desc)%type.

Definition all_ack : script := {| sc_w1 := WOk; sc_s1 := SAck; sc_w2 := WOk; sc_s2 := SAck |}.

(* the retryPublish2 closure reads the attempt's first write / first wait: when the harness
   interrupts "the PUBREL step" of an attempt that starts with PUBREL, that is step 1 of the script *)
Definition att_build (a : att_desc) : attempt :=
  let '(c, nid, f, cause) := a in
  {| at_client := {| cl_name := c; cl_connected := true |};
     at_nid := nid;
     at_script := match f with None => all_ack | Some f' => script_of f' (build cause) end |}.

Definition msg_eqb (a b : message) : bool := message_eqb_dup a b && Bool.eqb (m_dup a) (m_dup b).
Definition pkt_eqb (a b : pkt) : bool :=
  match a, b with
  | PPublish x, PPublish y => msg_eqb x y
  | PPubRel x, PPubRel y => x =? y
  | PSubscribe i s, PSubscribe j t => (i =? j) && subs_eqb s t
  | PUnsubscribe i s, PUnsubscribe j t => (i =? j) && str_list_eqb s t
  | _, _ => false
  end.

Definition class_code (c : rclass) : N :=
  match c with RcNil => 0 | RcRetry => 1 | RcBareEOF => 2 | RcOther => 3 | RcPanic => 4 end.

(* observed per attempt: packets written on the attempt's own connection, result class (5 = did not
   return), number of packets written meanwhile on any other connection *)
Definition att_obs := (list pkt * N * N)%type.
Definition retry_case := (request * list att_desc * list att_obs)%type.

Definition proj_obs (o : aobs) : att_obs := (writes_of (ob_events o), class_code (ob_class o), 0).

Definition att_obs_eqb (a b : att_obs) : bool :=
  let '(pa, ca, sa) := a in let '(pb, cb, sb) := b in
  list_eqb pkt_eqb pa pb && (ca =? cb) && (sa =? sb).

Definition retry_inputs_ok (c : retry_case) : bool :=
  let '(r, ats, _) := c in
  req_ok r && forallb attempt_ok (map att_build ats).

Definition retry_model_ok (c : retry_case) : bool :=
  let '(r, ats, obs) := c in
  list_eqb att_obs_eqb obs (map proj_obs (map obs_of (run_attempts 100 r (map att_build ats)))).

(* the property: the protocol of Errors.spec_attempts, checked through [follows] as well *)
Definition retry_spec_ok (c : retry_case) : bool :=
  let '(r, ats, obs) := c in
  let ats' := map att_build ats in
  negb (retry_inputs_ok c)
  || (list_eqb att_obs_eqb obs (map proj_obs (spec_attempts r ats'))
      && (if forallb attempt_no_eof ats'
          then follows r (publish_id r ats') true false ats' (spec_attempts r ats')
               && runs_to_completion ats' (spec_attempts r ats')
          else true)).

Definition c19_retry_violations (cs : list retry_case) : list nat := indices_where (fun c => negb (retry_spec_ok c)) cs.
Definition c19_retry_mismatches (cs : list retry_case) : list nat := indices_where (fun c => negb (retry_model_ok c)) cs.
(* inputs outside the hypotheses would make the comparison meaningless: the harness must not produce them *)
Definition c19_retry_bad_inputs (cs : list retry_case) : list nat := indices_where (fun c => negb (retry_inputs_ok c)) cs.
