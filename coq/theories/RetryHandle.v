(* RetryHandle.v — the base client's retry handle (ErrorWithRetry) for an interrupted Publish, in
   isolation (C12, last clause: "the same holds for the retry handle (ErrorWithRetry) that the base
   client returns for an interrupted request").

   What is modelled: publishImpl (publish.go:132-227) on a BaseClient whose signaller
   (client.go:122-131) already holds arbitrary registered waiters of other requests; every
   interruption point of the QoS 1 / QoS 2 exchange (Write fails / connClosed while waiting / ctx done
   while waiting; for QoS 2 in both phases), each returning a handle (the closures retryPublish,
   publish.go:167-169, and retryPublish2, publish.go:196-223, defunctionalised: [BhPublish m],
   [BhPubRel m]); ErrorWithRetry.Retry (error.go:36-38) = running the handle on ANY client.

   Packet identifiers are real identifiers here (N), not the ghost numbering of RetryCore: the
   identifier of a message whose ID field is 0 is drawn from newID (uniqid.go:31-37), an input of the
   model ([bs_fresh], what newID would return on that client at that moment; non-zero by C15).
   The signaller maps are association lists identifier -> owner, the owner being a ghost tag of the
   call that registered the channel (so that "the other request's waiter was replaced" can be said).
   Other requests come and go between attempts: [bmop] (register / unregister a waiter), applied to
   the target client before an attempt; together with an arbitrary initial world every content of the
   five maps is reachable.

   Everything is a total computable function; a Go panic ([pktPublish.Pack] on QoS > 2,
   publish.go:91-92) is the explicit outcome [BoPanic]. No proofs in this file. *)
From MQ Require Import Base.
Open Scope N_scope.

(* ---------- the caller's Message (message.go), without Dup: Dup is an argument of publishImpl ---------- *)
Record hmsg := { h_id : N; h_qos : N; h_retain : bool; h_topic : str; h_payload : str }.

Definition hm_set_id (m : hmsg) (i : N) : hmsg :=
  {| h_id := i; h_qos := h_qos m; h_retain := h_retain m; h_topic := h_topic m; h_payload := h_payload m |}.

(* publish.go:136-138  if message.ID == 0 { message.ID = c.newID() } — the pointer is shared with the
   retry closures, so the field is filled once for the whole chain *)
Definition hm_fill_id (m : hmsg) (fresh : N) : hmsg := if h_id m =? 0 then hm_set_id m fresh else m.

Definition hmsg_eqb (a b : hmsg) : bool :=
  (h_id a =? h_id b) && (h_qos a =? h_qos b) && Bool.eqb (h_retain a) (h_retain b)
  && str_eqb (h_topic a) (h_topic b) && str_eqb (h_payload a) (h_payload b).
Definition hm_content_eqb (a b : hmsg) : bool :=
  (h_qos a =? h_qos b) && Bool.eqb (h_retain a) (h_retain b)
  && str_eqb (h_topic a) (h_topic b) && str_eqb (h_payload a) (h_payload b).

(* ---------- signaller maps: identifier -> owner (ghost tag of the registering call) ---------- *)
Definition amap := list (N * nat).
Fixpoint am_remove (i : N) (l : amap) : amap :=
  match l with
  | [] => []
  | (j, o) :: r => if i =? j then am_remove i r else (j, o) :: am_remove i r
  end.
Fixpoint am_get (i : N) (l : amap) : option nat :=
  match l with
  | [] => None
  | (j, o) :: r => if i =? j then Some o else am_get i r
  end.
(* sig.chXxx[id] = ch : whatever was registered under id is replaced *)
Definition am_set (i : N) (o : nat) (l : amap) : amap := (i, o) :: am_remove i l.

(* the five maps of client.go:125-129 *)
Inductive wkind := WkAck | WkRec | WkComp | WkSub | WkUnsub.

Record bclient := {
  bc_inited : bool;     (* BaseClient.init ran: sig <> nil (connect.go:98-104) *)
  bc_open : bool;       (* the transport is open: a Write can succeed *)
  bc_ack : amap;        (* sig.chPubAck *)
  bc_rec : amap;        (* sig.chPubRec *)
  bc_comp : amap;       (* sig.chPubComp *)
  bc_sub : amap;        (* sig.chSubAck *)
  bc_unsub : amap       (* sig.chUnsubAck *)
}.
Definition bc_none : bclient :=
  {| bc_inited := false; bc_open := false; bc_ack := []; bc_rec := []; bc_comp := []; bc_sub := []; bc_unsub := [] |}.
Definition bc_fresh (inited : bool) : bclient :=
  {| bc_inited := inited; bc_open := true; bc_ack := []; bc_rec := []; bc_comp := []; bc_sub := []; bc_unsub := [] |}.

Definition bc_map (c : bclient) (kd : wkind) : amap :=
  match kd with
  | WkAck => bc_ack c | WkRec => bc_rec c | WkComp => bc_comp c | WkSub => bc_sub c | WkUnsub => bc_unsub c
  end.
Definition bc_set_map (c : bclient) (kd : wkind) (l : amap) : bclient :=
  match kd with
  | WkAck => {| bc_inited := bc_inited c; bc_open := bc_open c; bc_ack := l; bc_rec := bc_rec c; bc_comp := bc_comp c; bc_sub := bc_sub c; bc_unsub := bc_unsub c |}
  | WkRec => {| bc_inited := bc_inited c; bc_open := bc_open c; bc_ack := bc_ack c; bc_rec := l; bc_comp := bc_comp c; bc_sub := bc_sub c; bc_unsub := bc_unsub c |}
  | WkComp => {| bc_inited := bc_inited c; bc_open := bc_open c; bc_ack := bc_ack c; bc_rec := bc_rec c; bc_comp := l; bc_sub := bc_sub c; bc_unsub := bc_unsub c |}
  | WkSub => {| bc_inited := bc_inited c; bc_open := bc_open c; bc_ack := bc_ack c; bc_rec := bc_rec c; bc_comp := bc_comp c; bc_sub := l; bc_unsub := bc_unsub c |}
  | WkUnsub => {| bc_inited := bc_inited c; bc_open := bc_open c; bc_ack := bc_ack c; bc_rec := bc_rec c; bc_comp := bc_comp c; bc_sub := bc_sub c; bc_unsub := l |}
  end.
Definition bc_reg (kd : wkind) (i : N) (o : nat) (c : bclient) : bclient := bc_set_map c kd (am_set i o (bc_map c kd)).
Definition bc_unreg (kd : wkind) (i : N) (c : bclient) : bclient := bc_set_map c kd (am_remove i (bc_map c kd)).
Definition bc_close (c : bclient) : bclient :=
  {| bc_inited := bc_inited c; bc_open := false; bc_ack := bc_ack c; bc_rec := bc_rec c; bc_comp := bc_comp c; bc_sub := bc_sub c; bc_unsub := bc_unsub c |}.

(* ---------- the wire: every Transport.Write call for a PUBLISH / PUBREL, successful or not ---------- *)
Inductive wev :=
| WPub (m : hmsg) (dup : bool) (ok : bool)     (* PUBLISH with the fields of m, DUP = dup; ok = Write returned nil *)
| WRel (id : N) (ok : bool).                   (* PUBREL *)

Record bworld := {
  bw_clients : list bclient;
  bw_wire : list (nat * wev)                   (* client index, packet; oldest first *)
}.

Fixpoint bh_upd_nth {A} (k : nat) (f : A -> A) (l : list A) : list A :=
  match l, k with
  | [], _ => []
  | x :: r, O => f x :: r
  | x :: r, S k' => x :: bh_upd_nth k' f r
  end.
Definition bw_get (w : bworld) (k : nat) : bclient := nth k (bw_clients w) bc_none.
Definition bw_upd (w : bworld) (k : nat) (f : bclient -> bclient) : bworld :=
  {| bw_clients := bh_upd_nth k f (bw_clients w); bw_wire := bw_wire w |}.
Definition bw_log (w : bworld) (k : nat) (e : wev) : bworld :=
  {| bw_clients := bw_clients w; bw_wire := bw_wire w ++ [(k, e)] |}.

(* ---------- environment of one attempt ---------- *)
(* what happens to one request packet and the wait for its acknowledgement *)
Inductive senv :=
| SWriteFail     (* Transport.Write returns an error (the connection stays as it is) *)
| SClosed        (* written; connClosed fires while waiting (the connection is closed) *)
| SCtx           (* written; ctx.Done() fires while waiting *)
| SAck.          (* written; the acknowledgement arrives on the channel this call registered *)
Record aenv := { ae_pub : senv; ae_rel : senv }.   (* PUBLISH step, PUBREL step *)

Inductive hcause := HcWrite | HcClosed | HcCtx.
Inductive bhandle :=
| BhPublish (m : hmsg)      (* retryPublish: publishImpl(ctx, cli, message, true) *)
| BhPubRel (m : hmsg).      (* retryPublish2: PUBREL only *)
Inductive boutcome :=
| BoDone                                  (* returned nil *)
| BoHandle (h : bhandle) (c : hcause)     (* ErrorWithRetry *)
| BoPlainErr                              (* QoS 0: write error without handle (publish.go:176) *)
| BoNotConnected                          (* ErrNotConnected, no handle (publish.go:141-144, 198-201) *)
| BoInvalidQoS                            (* ValidateMessage (publish.go:116-118) *)
| BoPanic.                                (* Pack: panic("invalid QoS") *)

Definition bh_msg (h : bhandle) : hmsg := match h with BhPublish m | BhPubRel m => m end.

(* c.write(pkt) followed by the select (publish.go:171-194 / 210-221): logs the Write call, returns
   what the caller observes. On a transport that is already closed every Write fails. *)
Definition bh_write (w : bworld) (k : nat) (mk : bool -> wev) (e : senv) : bworld * senv :=
  let e := if bc_open (bw_get w k) then e else SWriteFail in
  match e with
  | SWriteFail => (bw_log w k (mk false), SWriteFail)
  | SClosed => (bw_upd (bw_log w k (mk true)) k bc_close, SClosed)
  | SCtx => (bw_log w k (mk true), SCtx)
  | SAck => (bw_log w k (mk true), SAck)
  end.

Definition bh_cause (e : senv) : hcause :=
  match e with SWriteFail => HcWrite | SClosed => HcClosed | _ => HcCtx end.

(* retryPublish2 (publish.go:196-223) run on client k by the call tagged [owner] *)
Definition rel_attempt (w : bworld) (k : nat) (m : hmsg) (owner : nat) (e : senv) : bworld * boutcome :=
  if negb (bc_inited (bw_get w k)) then (w, BoNotConnected)                    (* 198-201 *)
  else
    let w := bw_upd w k (bc_reg WkComp (h_id m) owner) in                       (* 202-208 sig.chPubComp[message.ID] = chPubComp *)
    let '(w, r) := bh_write w k (WRel (h_id m)) e in                            (* 210-214 *)
    match r with
    | SAck => (bw_upd w k (bc_unreg WkComp (h_id m)), BoDone)                   (* 220; serve.go:149 PubComp(id) deletes the entry *)
    | _ => (w, BoHandle (BhPubRel m) (bh_cause r))                              (* 213, 217, 219: retryPublish2 again *)
    end.

(* publishImpl (publish.go:132-227) on client k; [fresh] = what c.newID() returns if it is called *)
Definition pub_attempt (w : bworld) (k : nat) (m0 : hmsg) (dup : bool) (fresh : N) (owner : nat) (env : aenv)
  : bworld * hmsg * boutcome :=
  let m := hm_fill_id m0 fresh in                                               (* 136-138 *)
  if negb (bc_inited (bw_get w k)) then (w, m, BoNotConnected)                  (* 141-144 *)
  else if 2 <? h_qos m then (w, m, BoPanic)                                     (* 148: no case; 171: Pack panics *)
  else
    let w := if h_qos m =? 1 then bw_upd w k (bc_reg WkAck (h_id m) owner)      (* 149-156 sig.chPubAck[message.ID] = chPubAck *)
             else if h_qos m =? 2 then bw_upd w k (bc_reg WkRec (h_id m) owner) (* 157-164 *)
             else w in
    let '(w, r) := bh_write w k (WPub m dup) (ae_pub env) in                    (* 171-177 *)
    if h_qos m =? 0 then
      match r with SWriteFail => (w, m, BoPlainErr) | _ => (w, m, BoDone) end   (* 176 / 226 *)
    else
      match r with
      | SAck =>
          if h_qos m =? 1 then (bw_upd w k (bc_unreg WkAck (h_id m)), m, BoDone)              (* 185; serve.go:107 *)
          else let '(w, o) := rel_attempt (bw_upd w k (bc_unreg WkRec (h_id m))) k m owner (ae_rel env) in
               (w, m, o)                                                                       (* 193; serve.go:118; 224 *)
      | _ => (w, m, BoHandle (BhPublish m) (bh_cause r))                        (* 174, 181-184, 189-192: retryPublish *)
      end.

(* BaseClient.Publish (publish.go:124-130): ValidateMessage with MaxPayloadLen = 0, then publishImpl dup=false *)
Definition base_publish (w : bworld) (k : nat) (m : hmsg) (fresh : N) (owner : nat) (env : aenv)
  : bworld * hmsg * boutcome :=
  if 2 <? h_qos m then (w, m, BoInvalidQoS) else pub_attempt w k m false fresh owner env.

(* ErrorWithRetry.Retry(ctx, cli) (error.go:36-38) *)
Definition run_handle (w : bworld) (k : nat) (h : bhandle) (fresh : N) (owner : nat) (env : aenv)
  : bworld * hmsg * boutcome :=
  match h with
  | BhPublish m => pub_attempt w k m true fresh owner env
  | BhPubRel m => let '(w, o) := rel_attempt w k m owner (ae_rel env) in (w, m, o)
  end.

(* ---------- other requests between attempts ---------- *)
Inductive bmop :=
| MReg (kd : wkind) (id : N) (owner : nat)     (* another request registers its waiter *)
| MUnreg (kd : wkind) (id : N).                (* an acknowledgement consumed / removed a waiter *)
Definition bh_apply_op (c : bclient) (o : bmop) : bclient :=
  match o with
  | MReg kd i ow => bc_reg kd i ow c
  | MUnreg kd i => bc_unreg kd i c
  end.
Definition bh_apply_ops (w : bworld) (k : nat) (ops : list bmop) : bworld :=
  bw_upd w k (fun c => fold_left bh_apply_op ops c).

(* The reader goroutine (serve.go:103-124 PUBACK / PUBREC, 145-155 PUBCOMP, 156-177 SUBACK / UNSUBACK)
   receiving an acknowledgement of kind kd for identifier i on client k while NO call is waiting for
   it (a late or duplicate acknowledgement: the request gave up on ctx.Done, or was already
   acknowledged): [sig.PubRec(id)] etc. look the entry up and delete it (client.go:146-200); if there
   was one the packet is put into that (abandoned, buffered) channel, otherwise it is dropped. In
   both cases NOTHING is written to the transport — in particular the reader never sends PUBREL for
   an unexpected PUBREC. On the signaller this is exactly [MUnreg kd i]. *)
Definition serve_stray_ack (w : bworld) (k : nat) (kd : wkind) (i : N) : bworld :=
  if bc_inited (bw_get w k) then bw_upd w k (bc_unreg kd i) else w.

(* one attempt of a chain: the client it runs on, what other requests did to that client's
   signaller since the previous attempt, the identifier newID would hand out, the environment *)
Record bstep := { bs_k : nat; bs_ops : list bmop; bs_fresh : N; bs_env : aenv }.

(* the n-th call of the chain is tagged n *)
Fixpoint run_chain (w : bworld) (o : boutcome) (n : nat) (ss : list bstep) : bworld * boutcome :=
  match ss with
  | [] => (w, o)
  | s :: r =>
      match o with
      | BoHandle h _ =>
          let w := bh_apply_ops w (bs_k s) (bs_ops s) in
          let '(w, _, o') := run_handle w (bs_k s) h (bs_fresh s) n (bs_env s) in
          run_chain w o' (S n) r
      | _ => (w, o)            (* no handle: nothing can be retried *)
      end
  end.

Definition publish_chain (w : bworld) (m : hmsg) (s0 : bstep) (ss : list bstep) : bworld * boutcome :=
  let w := bh_apply_ops w (bs_k s0) (bs_ops s0) in
  let '(w, _, o) := base_publish w (bs_k s0) m (bs_fresh s0) 0%nat (bs_env s0) in
  run_chain w o 1%nat ss.

(* ---------- the property on a sequence of Write calls for one message ---------- *)
(* after the first PUBLISH [m]: every further PUBLISH is m again with DUP=1 (only if QoS > 0, and
   never after a PUBREL), every PUBREL carries m's identifier (only QoS 2) *)
Fixpoint later_ok (m : hmsg) (released : bool) (l : list wev) : bool :=
  match l with
  | [] => true
  | WPub m' d _ :: r => negb released && d && hmsg_eqb m' m && (0 <? h_qos m) && later_ok m released r
  | WRel i _ :: r => (i =? h_id m) && (h_qos m =? 2) && later_ok m true r
  end.

(* [m0] is the message as the caller passed it (ID possibly 0): the first Write is PUBLISH with
   DUP=0, m0's topic, payload, QoS, retain, and m0's identifier if it had one, a non-zero one
   otherwise (a QoS 0 PUBLISH carries no identifier) *)
Definition chain_faithful (m0 : hmsg) (l : list wev) : bool :=
  match l with
  | [] => true
  | WPub m d _ :: r =>
      negb d && hm_content_eqb m m0
      && ((h_qos m =? 0) || (if h_id m0 =? 0 then negb (h_id m =? 0) else h_id m =? h_id m0))
      && later_ok m false r
  | WRel _ _ :: _ => false
  end.

Fixpoint bh_has_rel (l : list wev) : bool :=
  match l with
  | [] => false
  | WRel _ _ :: _ => true
  | _ :: r => bh_has_rel r
  end.

(* what a handle writes on a client, as a function of the handle, the client being initialised / open
   and the environment ONLY (in particular not of the client's signaller maps) *)
Definition bh_ok (open : bool) (e : senv) : bool :=
  open && match e with SWriteFail => false | _ => true end.
Definition bh_acked (open : bool) (e : senv) : bool :=
  open && match e with SAck => true | _ => false end.
Definition handle_writes (h : bhandle) (inited open : bool) (env : aenv) : list wev :=
  if negb inited then []
  else match h with
       | BhPubRel m => [WRel (h_id m) (bh_ok open (ae_rel env))]
       | BhPublish m =>
           if 2 <? h_qos m then []
           else WPub m true (bh_ok open (ae_pub env))
                :: (if (h_qos m =? 2) && bh_acked open (ae_pub env)
                    then [WRel (h_id m) (bh_ok open (ae_rel env))] else [])
       end.

(* the signaller map in which a handle registers first *)
Definition handle_kind (h : bhandle) : wkind :=
  match h with
  | BhPubRel _ => WkComp
  | BhPublish m => if h_qos m =? 1 then WkAck else WkRec
  end.
