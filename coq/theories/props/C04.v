(* C04 — Inbound QoS 0/1/2 flows: one hand-over per message, correct acknowledgements.
   Statements only; proofs in Inbound_proofs.v. The model [serve_in] is serve.go:66-139; the
   traces are what the reader goroutine does, in program order (hand-over = handler returned). *)
From MQ Require Import Base Codec Inbound Inbound_proofs InboundH InboundH_proofs.
Open Scope N_scope.

(* for every finite packet sequence, with or without a handler, the serve loop behaves as the
   abstract receiver [spec_run] (QoS 2 method B: store on PUBLISH, release on PUBREL) *)
Theorem C04_refines_spec : forall handler ps, serve_in handler [] ps = spec_run handler os_empty ps.
Proof. exact refines_spec. Qed.

(* each QoS 0 and QoS 1 PUBLISH is handed to the handler exactly once, in arrival order *)
Theorem C04_q01_exactly_once_in_order : forall ps, Forall qos_ok ps ->
  hands_q01 (serve_in true [] ps) = q01_publishes ps.
Proof.
  intros ps H. rewrite refines_spec. apply q01_exactly_once_in_order; [exact H|]. intros id m E; discriminate.
Qed.

(* each QoS 1 PUBLISH is answered by exactly one PUBACK with its identifier, written after the
   handler returned; no other PUBACK is ever written *)
Theorem C04_puback_after_hand : forall ps, Forall qos_ok ps ->
  q1_flow (serve_in true [] ps) = q1_expected ps.
Proof.
  intros ps H. rewrite refines_spec. apply puback_after_hand; [exact H|]. intros id m E; discriminate.
Qed.

(* each QoS 2 PUBLISH is answered by PUBREC *)
Theorem C04_pubrec_per_q2_publish : forall handler ps, Forall qos_ok ps ->
  pubrecs (serve_in handler [] ps) = q2_ids ps.
Proof. intros h ps H. rewrite refines_spec. apply pubrec_per_q2_publish; exact H. Qed.

(* per identifier: the number of hand-overs of QoS 2 messages, and of PUBCOMPs, is the number
   of PUBRELs that close an open exchange — a retransmitted PUBLISH inside an exchange or a
   repeated PUBREL never causes a second hand-over *)
Theorem C04_q2_one_hand_per_exchange : forall id ps, Forall qos_ok ps ->
  q2_hands id (serve_in true [] ps) = releases id false ps /\
  pubcomps id (serve_in true [] ps) = releases id false ps.
Proof.
  intros id ps H. rewrite refines_spec.
  apply (q2_one_hand_per_exchange id ps os_empty H). intros k m E; discriminate.
Qed.

(* not before the PUBREL *)
Theorem C04_q2_no_hand_before_rel : forall ps, Forall qos_ok ps ->
  (forall p, In p ps -> match p with InPubRel _ => False | _ => True end) ->
  forall m, In (Hand m) (serve_in true [] ps) -> m_qos m <= 1.
Proof.
  intros ps H Hn m. rewrite refines_spec. apply q2_no_hand_before_rel; [exact H| |exact Hn].
  intros id x E; discriminate.
Qed.

(* acknowledgements do not depend on a handler being registered *)
Theorem C04_no_handler_still_acks : forall ps,
  filter (fun e => negb (is_hand e)) (serve_in true [] ps) = serve_in false [] ps.
Proof. intros ps. rewrite !refines_spec. apply no_handler_still_acks. Qed.

(* ---- "with and without a registered handler": the handler may be registered late, removed or
   replaced at any point of the stream (InboundH.v: the stream in segments, one Handle call before
   each) ---- *)

(* the serve loop refines the abstract receiver on every such history *)
Theorem C04_refines_spec_segments : forall segs, serve_segs [] segs = spec_segs os_empty segs.
Proof. exact segs_refine. Qed.

(* as long as SOME handler is registered, replacing it is invisible in what the reader does: hand-overs
   and acknowledgements are those of the undivided stream, so the six theorems above hold verbatim
   for histories that replace the handler any number of times *)
Theorem C04_replacing_handler_is_invisible : forall segs,
  Forall (fun s => has_handler (fst s) = true) segs ->
  map snd (concat (serve_segs [] segs)) = serve_in true [] (flat_map snd segs).
Proof. intros segs H. apply replacing_handler_is_invisible; exact H. Qed.

(* a hand-over goes to the handler registered when it happens *)
Theorem C04_hand_over_goes_to_current_handler : forall segs k i m,
  In (i, Hand m) (nth k (serve_segs [] segs) []) -> exists ps, nth_error segs k = Some (Some i, ps).
Proof. intros segs k i m. apply hand_over_goes_to_current_handler. Qed.

(* for QoS 2 that is the time of the PUBREL: a message stored while no handler was registered, or while
   another one was, is released to the handler registered when its PUBREL arrives *)
Theorem C04_q2_stored_without_handler : forall m i, m_qos m = 2 ->
  serve_segs [] [(None, [InPublish m]); (Some i, [InPubRel (m_id m)])]
  = [[(0%nat, WPubRec (m_id m))]; [(i, Hand m); (0%nat, WPubComp (m_id m))]].
Proof. exact q2_stored_without_handler_released_to_later_handler. Qed.
Theorem C04_q2_released_to_replacing_handler : forall m i j, m_qos m = 2 ->
  serve_segs [] [(Some i, [InPublish m]); (Some j, [InPubRel (m_id m)])]
  = [[(0%nat, WPubRec (m_id m))]; [(j, Hand m); (0%nat, WPubComp (m_id m))]].
Proof. exact q2_released_to_replacing_handler. Qed.

Print Assumptions C04_refines_spec.
Print Assumptions C04_q01_exactly_once_in_order.
Print Assumptions C04_puback_after_hand.
Print Assumptions C04_pubrec_per_q2_publish.
Print Assumptions C04_q2_one_hand_per_exchange.
Print Assumptions C04_q2_no_hand_before_rel.
Print Assumptions C04_no_handler_still_acks.
Print Assumptions C04_refines_spec_segments.
Print Assumptions C04_replacing_handler_is_invisible.
Print Assumptions C04_hand_over_goes_to_current_handler.
Print Assumptions C04_q2_stored_without_handler.
Print Assumptions C04_q2_released_to_replacing_handler.
