(* C07 — A request completes only on the acknowledgement that belongs to it.
   Statements only; proofs in Routing_proofs.v. The model [run] (Routing.v) is the signaller of
   client.go:123-200 with the request side of publish.go / subscribe.go / unsubscribe.go and the
   acknowledgement dispatch of serve.go:98-176. A history is ANY finite interleaving of
   [Start h rk id] (caller h registers its waiter and writes its request), [Recv a] (the reader
   processes acknowledgement a), [Resume h] (QoS 2 caller h, signalled by PUBREC, registers
   for PUBCOMP and writes PUBREL) and [Cancel h] (caller h gives up at its wait point because its
   context ended: it returns the context's error, its waiter entry STAYS in the map as a stale
   entry until an acknowledgement with that identifier takes it out); [run] gives, per event, who returns with what, which PUBREL
   is written, and whether the transport is closed.
   Hypothesis [wf]: every Start uses a new caller handle and an identifier that is not a key of
   the waiter map(s) the request uses — stale entries of requests that gave up included: an
   identifier counts as in use until an acknowledgement has consumed its entry —, i.e.
   identifiers of outstanding requests are pairwise distinct per kind (C15 provides this for library-chosen identifiers; finding F13 is the
   situation in which it fails). Non-vacuity: [ex_hist_wf] and the examples below. *)
From MQ Require Import Base Routing Routing_proofs.
Open Scope N_scope.

(* "for any number of concurrent callers and any order in which the broker answers": in every
   well-formed history each request does exactly what the one-request automaton [react] does on
   that history — and [react] by definition moves only on the request's own Start, on an
   acknowledgement of the kind it is waiting for carrying its identifier, and on its own Resume
   (until a miscounted SUBACK closes the transport, [closings]) — also when other requests give
   up and their acknowledgements arrive late. *)
Theorem C07_each_request_as_if_alone : forall evs h, wf evs = true ->
  view h (run sig_init evs) = spec_run h (PNone, false) evs (closings (run sig_init evs)).
Proof. exact refines. Qed.

(* "returns success only after the acknowledgement of the right kind carrying that request's own
   packet identifier has arrived (PUBREC then PUBCOMP for QoS 2)": a success at event t is
   [justified]: t is that acknowledgement, after the Start; for QoS 2 the PUBCOMP, with the
   PUBREC and then the caller's Resume (PUBREL) in between, in this order. *)
Theorem C07_completes_only_on_own_ack : forall evs h g t, wf evs = true ->
  In (Done h (RSuccess g)) (nth t (run sig_init evs) []) -> justified evs h g t.
Proof. exact success_only_on_own_ack. Qed.

(* ... and it does complete then, exactly once: Publish QoS 1 / Subscribe / Unsubscribe produce
   nothing before the first acknowledgement of their kind and identifier after the Start, their
   return at it, nothing after it — whatever else (mid, post) arrives, as long as no miscounted
   SUBACK has closed the transport before. *)
Theorem C07_completes_at_own_ack : forall evs pre h rk id mid a post,
  wf evs = true ->
  evs = pre ++ Start h rk id :: mid ++ Recv a :: post ->
  first_kind rk <> KPubRec ->
  own_ack (first_kind rk) id (Recv a) = true ->
  (forall e, In e mid -> own_ack (first_kind rk) id e = false) ->
  ~ In (Cancel h) mid ->
  let T := length (pre ++ Start h rk id :: mid) in
  firstn T (closings (run sig_init evs)) = repeat false T ->
  view h (run sig_init evs) = repeat [] T ++ [Done h (ack_result rk a)] :: repeat [] (length post).
Proof. exact completes_at_own_ack. Qed.

(* "any order and delay of the broker's answers" includes zero delay: the waiter is registered
   before the request is written ([Start] = register-then-write), so an own acknowledgement that
   is the very next event after the Start — processed by the reader before Transport.Write has
   even returned — completes the request (QoS 2: PUBREC right after the PUBLISH, PUBCOMP right
   after the PUBREL) *)
Theorem C07_ack_right_after_write_completes : forall evs pre h rk id a post,
  wf evs = true -> evs = pre ++ Start h rk id :: Recv a :: post ->
  first_kind rk <> KPubRec -> own_ack (first_kind rk) id (Recv a) = true ->
  firstn (S (length pre)) (closings (run sig_init evs)) = repeat false (S (length pre)) ->
  In (Done h (ack_result rk a)) (nth (S (length pre)) (run sig_init evs) []).
Proof. exact ack_right_after_write_completes. Qed.

Theorem C07_qos2_acks_right_after_writes_complete : forall evs pre h id a1 a2 post,
  wf evs = true -> evs = pre ++ Start h RPub2 id :: Recv a1 :: Resume h :: Recv a2 :: post ->
  own_ack KPubRec id (Recv a1) = true -> own_ack KPubComp id (Recv a2) = true ->
  firstn (length pre + 3) (closings (run sig_init evs)) = repeat false (length pre + 3) ->
  In (WPubRel h id) (nth (length pre + 2) (run sig_init evs) []) /\
  In (Done h (RSuccess [])) (nth (length pre + 3) (run sig_init evs) []).
Proof. exact qos2_acks_right_after_writes_complete. Qed.

(* "for any number of concurrent callers and any order in which the broker answers": a waiter
   registered under identifier X is removed only by an acknowledgement of its kind carrying X (or
   by its caller giving up, or the end of the connection) — after ANY history mid, with any
   number of other requests registered and acknowledged meanwhile under other identifiers, the
   request is still blocked waiting for exactly its own acknowledgement; together with
   C07_completes_at_own_ack: however long its acknowledgement is delayed, it completes then *)
Theorem C07_pending_waiter_stays : forall evs pre h rk id mid,
  wf evs = true -> evs = pre ++ Start h rk id :: mid ->
  (forall e, In e mid -> own_ack (first_kind rk) id e = false) -> ~ In (Cancel h) mid ->
  no_close (run sig_init evs) ->
  awaited (state_after sig_init evs) (first_kind rk) id = true.
Proof. exact pending_waiter_stays. Qed.

(* the same for QoS 2: PUBREL at the first Resume after the first PUBREC, return at the first
   PUBCOMP after that, nothing else; m1 and m2 may contain any number of PUBCOMPs with the
   request's identifier *)
Theorem C07_qos2_completes_at_pubcomp : forall evs pre h id m1 a1 m2 m3 a2 post,
  wf evs = true ->
  evs = pre ++ Start h RPub2 id :: m1 ++ Recv a1 :: m2 ++ Resume h :: m3 ++ Recv a2 :: post ->
  own_ack KPubRec id (Recv a1) = true -> own_ack KPubComp id (Recv a2) = true ->
  (forall e, In e m1 -> own_ack KPubRec id e = false) ->
  ~ In (Resume h) m2 ->
  (forall e, In e m3 -> own_ack KPubComp id e = false) ->
  ~ In (Cancel h) (m1 ++ m2 ++ m3) ->
  let T1 := length (pre ++ Start h RPub2 id :: m1) in
  let T3 := (T1 + (S (length m2) + S (length m3)))%nat in
  firstn T3 (closings (run sig_init evs)) = repeat false T3 ->
  view h (run sig_init evs) =
    repeat [] (T1 + S (length m2)) ++ [WPubRel h id] :: repeat [] (length m3)
    ++ [Done h (RSuccess [])] :: repeat [] (length post).
Proof. exact qos2_completes_at_pubcomp. Qed.

(* "PUBREC then PUBCOMP": as long as its PUBREC has not arrived, nothing — in particular no
   PUBCOMP carrying its identifier — completes a QoS 2 publish *)
Theorem C07_qos2_order : forall evs pre h id m1,
  wf evs = true -> evs = pre ++ Start h RPub2 id :: m1 ->
  (forall e, In e m1 -> own_ack KPubRec id e = false) ->
  forall t g, ~ In (Done h (RSuccess g)) (nth t (run sig_init evs) []).
Proof. exact qos2_not_before_pubrec. Qed.

(* "acknowledgements with other identifiers, of other kinds, or unsolicited ones neither complete
   nor disturb it" (1): an acknowledgement that is not request h's — it may be the genuine
   acknowledgement of another request — leaves h's outputs as they are without it *)
Theorem C07_foreign_acks_inert : forall h e1 a e2,
  wf (e1 ++ Recv a :: e2) = true -> wf (e1 ++ e2) = true ->
  no_close (run sig_init (e1 ++ Recv a :: e2)) -> no_close (run sig_init (e1 ++ e2)) ->
  foreign_to h e1 a ->
  let V := view h (run sig_init (e1 ++ e2)) in
  view h (run sig_init (e1 ++ Recv a :: e2)) = firstn (length e1) V ++ [] :: skipn (length e1) V.
Proof. exact foreign_ack_inert. Qed.

(* (2): an acknowledgement for which no waiter is registered (unsolicited, duplicate, wrong
   kind, unknown identifier) changes nothing for anybody: the whole run is the run without it *)
Theorem C07_unawaited_acks_inert : forall e1 a e2,
  wm_has (smap (state_after sig_init e1) (a_kind a)) (a_id a) = false ->
  let R := run sig_init (e1 ++ e2) in
  run sig_init (e1 ++ Recv a :: e2) = firstn (length e1) R ++ [] :: skipn (length e1) R.
Proof. exact unawaited_ack_inert. Qed.

(* (3): an acknowledgement nobody is blocked waiting for — in particular the LATE acknowledgement
   of a request that gave up, which still finds that request's stale entry — completes nobody:
   the event has no output at all (no hypothesis on the history) *)
Theorem C07_late_ack_completes_nobody : forall e1 a e2,
  awaited (state_after sig_init e1) (a_kind a) (a_id a) = false ->
  nth (length e1) (run sig_init (e1 ++ Recv a :: e2)) [] = [].
Proof. exact late_ack_completes_nobody. Qed.

(* ... where [awaited] (an entry is registered under (kind, id) and its caller has not given up)
   means: some request is at this moment waiting for exactly this acknowledgement *)
Theorem C07_awaited_iff_waiting : forall evs k id,
  wf evs = true -> closed (state_after sig_init evs) = false ->
  (awaited (state_after sig_init evs) k id = true <-> exists h subs, phase_after h evs = PWait k id subs).
Proof. exact awaited_iff_waiting. Qed.

(* a request returns at most once and with one result; one that gave up (its context ended
   while it was waiting) returned the context's error at that event and never returns success,
   whatever arrives later *)
Theorem C07_done_once : forall evs h t t' r r', wf evs = true ->
  In (Done h r) (nth t (run sig_init evs) []) -> In (Done h r') (nth t' (run sig_init evs) []) ->
  t = t' /\ r = r'.
Proof. exact done_once. Qed.

Theorem C07_cancelled_never_succeeds : forall evs h t, wf evs = true ->
  In (Done h RCancelled) (nth t (run sig_init evs) []) ->
  forall t' g, ~ In (Done h (RSuccess g)) (nth t' (run sig_init evs) []).
Proof. exact cancelled_never_succeeds. Qed.

Theorem C07_cancel_returns_ctx_error : forall evs pre h rk id mid post,
  wf evs = true -> evs = pre ++ Start h rk id :: mid ++ Cancel h :: post ->
  (forall e, In e mid -> own_ack (first_kind rk) id e = false) -> ~ In (Cancel h) mid ->
  let T := length (pre ++ Start h rk id :: mid) in
  firstn T (closings (run sig_init evs)) = repeat false T ->
  view h (run sig_init evs) = repeat [] T ++ [Done h RCancelled] :: repeat [] (length post).
Proof. exact cancel_returns_ctx_error. Qed.

(* "Subscribe returns the granted QoS per filter in request order and fails with ErrInvalidSubAck
   when the count differs" (and then closes the transport, subscribe.go:101-103) *)
Theorem C07_suback_codes : forall evs pre h subs id mid a post,
  wf evs = true ->
  evs = pre ++ Start h (RSub subs) id :: mid ++ Recv a :: post ->
  own_ack KSubAck id (Recv a) = true ->
  (forall e, In e mid -> own_ack KSubAck id e = false) ->
  ~ In (Cancel h) mid ->
  let T := length (pre ++ Start h (RSub subs) id :: mid) in
  firstn T (closings (run sig_init evs)) = repeat false T ->
  nth T (run sig_init evs) [] =
    if Nat.eqb (length (a_codes a)) (length subs)
    then [Done h (RSuccess (grant subs (a_codes a)))]
    else [Done h RInvalidSubAck; Closed].
Proof. exact suback_codes. Qed.

(* [grant]: the filters of the request, in request order, each with the code at its position *)
Theorem C07_grant_in_request_order : forall subs codes, length codes = length subs ->
  map fst (grant subs codes) = map fst subs /\ map snd (grant subs codes) = codes.
Proof. exact grant_spec. Qed.

(* Outside C07's domain (consequence of finding F13, identifier reuse): when a second request
   registers under the kind and identifier of an outstanding one, the first request's waiter is
   overwritten and the first request never returns on an acknowledgement, whatever arrives
   later: the only way it ever returns is by giving up. *)
Theorem C07_shared_id_first_never_completes : forall h1 h2 rk1 rk2 id post,
  h1 <> h2 -> first_kind rk1 = first_kind rk2 -> no_start h1 post ->
  forall t r, In (Done h1 r) (nth t (run sig_init (Start h1 rk1 id :: Start h2 rk2 id :: post)) []) ->
  r = RCancelled.
Proof. exact shared_id_first_never_completes. Qed.

Print Assumptions C07_each_request_as_if_alone.
Print Assumptions C07_completes_only_on_own_ack.
Print Assumptions C07_completes_at_own_ack.
Print Assumptions C07_ack_right_after_write_completes.
Print Assumptions C07_qos2_acks_right_after_writes_complete.
Print Assumptions C07_pending_waiter_stays.
Print Assumptions C07_qos2_completes_at_pubcomp.
Print Assumptions C07_qos2_order.
Print Assumptions C07_foreign_acks_inert.
Print Assumptions C07_unawaited_acks_inert.
Print Assumptions C07_late_ack_completes_nobody.
Print Assumptions C07_awaited_iff_waiting.
Print Assumptions C07_done_once.
Print Assumptions C07_cancelled_never_succeeds.
Print Assumptions C07_cancel_returns_ctx_error.
Print Assumptions C07_suback_codes.
Print Assumptions C07_grant_in_request_order.
Print Assumptions C07_shared_id_first_never_completes.
