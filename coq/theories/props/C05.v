(* C05 — Emitted packets are well-formed MQTT 3.1.1 carrying exactly the requested fields.
   Statements only; proofs in Codec_proofs.v and Utf8_proofs.v. [pack_*] is the model of the Go
   encoders (packet.go, connect.go, publish.go, subscribe.go, unsubscribe.go, pub*.go),
   [spec_decode] is an independent decoder written from the standard. *)
From MQ Require Import Base Codec SpecDecode Codec_proofs Inbound Parse Utf8_proofs C05Flows C05Flows_proofs.
Open Scope N_scope.

(* the shifts and masks of remainingLength compute the arithmetic form *)
Theorem C05_go_shifts : forall n, remaining_length_go n = remaining_length n.
Proof. exact remaining_length_go_eq. Qed.

(* the encoder is defined (does not panic) exactly up to the protocol maximum *)
Theorem C05_varint_defined : forall n, n <= 268435455 <-> exists rl, remaining_length n = Some rl.
Proof. exact varint_defined_iff. Qed.

(* for EVERY body length up to 268,435,455 the field decodes to the true length ... *)
Theorem C05_varint_roundtrip : forall n rl r, remaining_length n = Some rl ->
  decode_varint 4 1 0 (rl ++ r) = Some (n, r).
Proof. exact varint_roundtrip. Qed.

(* ... and is the minimal encoding: it has the minimal number of bytes, and no byte string that
   decodes to n is shorter *)
Theorem C05_varint_minimal : forall n rl, remaining_length n = Some rl -> length rl = min_varint_len n.
Proof. exact varint_minimal. Qed.

Theorem C05_varint_no_shorter : forall n bs r k, decode_varint k 1 0 bs = Some (n, r) ->
  (min_varint_len n <= length bs - length r)%nat.
Proof. exact varint_no_shorter. Qed.

(* CONNECT: options, will and credentials with matching flags, reserved bit clear *)
Theorem C05_connect_roundtrip : forall c b r, pack_connect c = Some b ->
  c_level c < 256 -> c_keepalive c < 65536 ->
  (c_pass c <> [] -> c_user c <> []) ->
  (forall w, c_will c = Some w -> w_qos w <= 2) ->
  spec_decode (b ++ r) =
    Some (PConnect (c_level c) (c_clean c) (c_keepalive c) (c_client_id c)
                   (option_map will_fields (c_will c)) (opt_str (c_user c)) (opt_str (c_pass c)), r).
Proof. exact connect_roundtrip. Qed.

(* PUBLISH: topic, payload, QoS, retain, DUP and an identifier iff QoS > 0 *)
Theorem C05_publish_roundtrip : forall m b r, pack_publish m = Some b -> m_id m < 65536 ->
  spec_decode (b ++ r) =
    Some (PPublish (m_dup m) (m_qos m) (m_retain m) (m_topic m)
                   (if m_qos m =? 0 then None else Some (m_id m)) (m_payload m), r).
Proof. exact publish_roundtrip. Qed.

Theorem C05_publish_defined : forall m, m_qos m <= 2 -> len (m_topic m) <= 65535 ->
  len (m_topic m) + len (m_payload m) + 4 <= 268435455 -> exists b, pack_publish m = Some b.
Proof. exact publish_defined. Qed.

(* SUBSCRIBE / UNSUBSCRIBE: filters and QoS in order, reserved flag bits 0010 *)
Theorem C05_subscribe_roundtrip : forall id subs b r, pack_subscribe id subs = Some b -> id < 65536 ->
  subs <> [] -> spec_decode (b ++ r) = Some (PSubscribe id subs, r).
Proof. exact subscribe_roundtrip. Qed.

Theorem C05_unsubscribe_roundtrip : forall id topics b r, pack_unsubscribe id topics = Some b -> id < 65536 ->
  topics <> [] -> spec_decode (b ++ r) = Some (PUnsubscribe id topics, r).
Proof. exact unsubscribe_roundtrip. Qed.

(* PUBACK, PUBREC, PUBREL (flags 0010), PUBCOMP, PINGREQ, DISCONNECT *)
Theorem C05_small_packets : forall id r, id < 65536 ->
  (forall b, pack_puback id = Some b -> spec_decode (b ++ r) = Some (PPubAck id, r)) /\
  (forall b, pack_pubrec id = Some b -> spec_decode (b ++ r) = Some (PPubRec id, r)) /\
  (forall b, pack_pubrel id = Some b -> spec_decode (b ++ r) = Some (PPubRel id, r)) /\
  (forall b, pack_pubcomp id = Some b -> spec_decode (b ++ r) = Some (PPubComp id, r)) /\
  (forall b, pack_pingreq = Some b -> spec_decode (b ++ r) = Some (PPingReq, r)) /\
  (forall b, pack_disconnect = Some b -> spec_decode (b ++ r) = Some (PDisconnect, r)).
Proof. exact small_roundtrip. Qed.

(* messages the protocol cannot carry are rejected: QoS above 2, payload over the maximum *)
Theorem C05_validate_rejects : forall max m,
  2 < m_qos m \/ (max <> 0 /\ max < len (m_payload m)) -> validate_message max m <> 0.
Proof. exact validate_rejects. Qed.

Theorem C05_validate_accepts_iff : forall max m,
  validate_message max m = 0 <-> (m_qos m <= 2 /\ (max = 0 \/ len (m_payload m) < max)).
Proof. exact validate_accepts_iff. Qed.

(* conversely: a PUBLISH from the broker is delivered with exactly the encoded topic, payload,
   flags and identifier, for every topic that is well-formed UTF-8 without U+0000 *)
Theorem C05_publish_parse_inverse : forall m t, m_qos m <= 2 -> m_id m < 65536 -> utf8_wf (m_topic m) ->
  pack_bytes (m_topic m) = Some t ->
  parse_publish (publish_flags m) (publish_body m t) = Ok (delivered m).
Proof. exact publish_parse_inverse. Qed.

(* "a PUBLISH from the broker is delivered with exactly the encoded topic, payload and flags", for whole
   streams: for EVERY sequence of broker packets (PUBLISH of any QoS with a well-formed topic, PUBREL,
   and packets the reader only routes: CONNACK, PUBACK, PUBREC, PUBCOMP, SUBACK, UNSUBACK, PINGRESP)
   encoded into one byte stream, the serve-loop model (readPacket, Parse, QoS flow) makes exactly the
   hand-overs and acknowledgement writes of the QoS flow on the encoded messages, then sees io.EOF *)
Theorem C05_inbound_stream : forall h ps s, Forall bpkt_ok ps -> enc_stream ps = Some s ->
  in_events (fst (serve h s)) = serve_in h [] (flow_pkts ps) /\ snd (serve h s) = EndErr EEOF.
Proof. exact stream_flow. Qed.

(* a QoS 2 PUBLISH is handed over at its PUBREL with exactly the encoded fields, regardless of what
   arrives between the two (any packets that are not a QoS 2 PUBLISH / PUBREL of the same identifier).
   The model is value based: it cannot exhibit two Go slices sharing memory; that the implementation
   behaves like the model on such sequences is checked by the correspondence (V_inseq / M_inseq). *)
Theorem C05_inbound_qos2_delivery : forall h pre m mid post s, m_qos m = 2 ->
  Forall bpkt_ok (pre ++ BPublish m :: mid ++ BPubRel (m_id m) :: post) ->
  forallb (fun p => negb (btouches (m_id m) p)) mid = true ->
  enc_stream (pre ++ BPublish m :: mid ++ BPubRel (m_id m) :: post) = Some s ->
  let sb1 := sb_set (serve_in_sb h [] (flow_pkts pre)) (m_id m) (as_delivered m) in
  let sb2 := sb_del (serve_in_sb h sb1 (flow_pkts mid)) (m_id m) in
  in_events (fst (serve h s)) =
    serve_in h [] (flow_pkts pre) ++ [WPubRec (m_id m)] ++ serve_in h sb1 (flow_pkts mid)
    ++ hand h (as_delivered m) ++ [WPubComp (m_id m)] ++ serve_in h sb2 (flow_pkts post).
Proof. exact stream_q2_delivery. Qed.

(* every message the handler receives is, field by field, one of the encoded PUBLISH packets *)
Theorem C05_inbound_hands_encoded : forall h ps s x, Forall bpkt_ok ps -> enc_stream ps = Some s ->
  In (EvIn (Hand x)) (fst (serve h s)) -> exists m, In (BPublish m) ps /\ x = as_delivered m.
Proof. exact stream_hands_encoded. Qed.

(* packets written through retry handles (ErrorWithRetry.Retry), for EVERY sequence of interruptions
   of a QoS 1/2 publish: one PUBLISH with DUP=0, then only PUBLISHes with DUP=1, then (QoS 2) only
   PUBRELs - never a PUBLISH after the PUBREL, never a PUBREL for QoS 1 *)
Theorem C05_retry_shape : forall m c cuts, m_qos m = 1 \/ m_qos m = 2 ->
  exists k j, concat (pub_run m (PSend false) (c :: cuts)) =
              pubd m false :: repeat (pubd m true) k ++ repeat (rel m) j
              /\ (m_qos m = 1 -> j = O).
Proof. exact pub_run_shape. Qed.

(* ... and each of them is read back by the independent decoder as the requested fields (DUP only in
   the PUBLISH header; the PUBREL has the reserved flags 0010, otherwise spec_decode rejects it) *)
Theorem C05_retry_packets_decode : forall m d, m_id m < 65536 -> m_qos m = 1 \/ m_qos m = 2 ->
  (forall b, pubd m d = Some b ->
     spec_decode b = Some (PPublish d (m_qos m) (m_retain m) (m_topic m) (Some (m_id m)) (m_payload m), [])) /\
  (forall b, rel m = Some b -> spec_decode b = Some (PPubRel (m_id m), [])).
Proof. exact retry_packets_decode. Qed.

(* length-prefixed fields (client id, will topic, will payload, user name, password, every SUBSCRIBE /
   UNSUBSCRIBE filter, PUBLISH topic): a field longer than 65,535 bytes cannot be carried, and EVERY such
   request yields the encoder's rejection outcome (the panic "string length overflow", before anything
   is written) ... *)
Theorem C05_long_fields_rejected :
  (forall s, len s <= 65535 <-> exists b, pack_bytes s = Some b) /\
  (forall c, connect_long c -> pack_connect c = None) /\
  (forall m, 65535 < len (m_topic m) -> pack_publish m = None) /\
  (forall id subs t q, In (t, q) subs -> 65535 < len t -> pack_subscribe id subs = None) /\
  (forall id ts t, In t ts -> 65535 < len t -> pack_unsubscribe id ts = None).
Proof.
  exact (conj pack_bytes_defined_iff (conj connect_long_rejected (conj publish_long_rejected
          (conj subscribe_long_rejected unsubscribe_long_rejected)))).
Qed.

(* ... while with every field within 65,535 bytes the encoders reach pack(), which is defined exactly for
   bodies up to 268,435,455 bytes; the round trip theorems above then give the requested fields back *)
Theorem C05_short_fields_packed :
  (forall c, connect_short c -> exists body, pack_connect c = pack 16 body) /\
  (forall id subs, Forall (fun tq => len (fst tq) <= 65535 /\ snd tq <= 2) subs ->
     exists p, pack_subscribe id subs = pack 130 (uint16_bytes id ++ p)) /\
  (forall id ts, Forall (fun t => len t <= 65535) ts ->
     exists p, pack_unsubscribe id ts = pack 162 (uint16_bytes id ++ p)) /\
  (forall typ body, len body <= 268435455 <-> exists b, pack typ body = Some b).
Proof.
  exact (conj connect_short_packs (conj subscribe_short_packs (conj unsubscribe_short_packs pack_defined_iff))).
Qed.

(* "SUBSCRIBE filters and QoS ... equal what the application asked for" for the re-subscription of a
   RetryClient after a reconnection: what is remembered for a filter is the QoS the application asked
   LAST for it (nothing if it unsubscribed since), a function of the request history only ... *)
Theorem C05_resubscribe_is_asked : forall t ops est,
  est_lookup t (rc_run est ops) = asked t (map fst ops) (est_lookup t est).
Proof. exact remembered_is_asked. Qed.

(* ... so the SUBSCRIBE requests of Resubscribe (filters, QoS, order, one per packet) are independent of
   the codes any broker granted (BaseClient.Subscribe overwrites the caller's slice with them) *)
Theorem C05_resubscribe_independent_of_grants : forall ops1 ops2 est,
  map fst ops1 = map fst ops2 -> resub_requests (rc_run est ops1) = resub_requests (rc_run est ops2).
Proof. exact resubscription_independent_of_grants. Qed.

Print Assumptions C05_go_shifts.
Print Assumptions C05_varint_defined.
Print Assumptions C05_varint_roundtrip.
Print Assumptions C05_varint_minimal.
Print Assumptions C05_varint_no_shorter.
Print Assumptions C05_connect_roundtrip.
Print Assumptions C05_publish_roundtrip.
Print Assumptions C05_publish_defined.
Print Assumptions C05_subscribe_roundtrip.
Print Assumptions C05_unsubscribe_roundtrip.
Print Assumptions C05_small_packets.
Print Assumptions C05_validate_rejects.
Print Assumptions C05_validate_accepts_iff.
Print Assumptions C05_publish_parse_inverse.
Print Assumptions C05_inbound_stream.
Print Assumptions C05_inbound_qos2_delivery.
Print Assumptions C05_inbound_hands_encoded.
Print Assumptions C05_retry_shape.
Print Assumptions C05_retry_packets_decode.
Print Assumptions C05_long_fields_rejected.
Print Assumptions C05_short_fields_packed.
Print Assumptions C05_resubscribe_is_asked.
Print Assumptions C05_resubscribe_independent_of_grants.
