(* C16 — Connection state, Err() and Done() report what really happened to the connection.
   Statements only; model in ConnState.v, proofs in ConnState_proofs.v.

   Reading guide. [run v (init_sys m) sched] is the system (the BaseClients of one possibly
   reconnecting client, one per dial) after the schedule [sched]: ANY list of labels, each label
   one atomic step of Connect, the reader's exit path, Disconnect, Close, a keep-alive goroutine,
   the reconnect loop (dial, cancel) or the environment (the peer's CONNACK, every way serve()
   can fail, write failures, timeouts) of connection k; labels that are not enabled are no-ops,
   so the quantifier covers every interleaving and every ending cause, on the first and on
   re-established connections. [c] is any connection k of that system. [not_old v] = the
   keep-alive goroutine of reconnclient.go as of fix 525edac (VMid) or of the current tree (VCur).
   c_log = the ConnState callback invocations, c_err = Err(), c_done = Done() is closed. *)
From MQ Require Import Base ConnState ConnState_proofs.
Open Scope N_scope.

(* "the state callback reports Active at most once ..." *)
Theorem C16_active_at_most_once : forall v m sched k c, not_old v ->
  nth_error (cls (run v (init_sys m) sched)) k = Some c ->
  (count_state SActive (c_log c) <= 1)%nat.
Proof. intros v m sched k c Hv. exact (active_at_most_once v Hv m sched k c). Qed.

(* "... and only after an accepting CONNACK": as long as the reader of connection k has not
   read a CONNACK with return code 0, Active has not been reported (prefix-closed, hence "after") *)
Theorem C16_active_once_after_accept : forall v m sched k c, not_old v ->
  Forall (fun sl => is_label k is_accept sl = false) sched ->
  nth_error (cls (run v (init_sys m) sched)) k = Some c ->
  count_state SActive (c_log c) = 0%nat.
Proof. intros v m sched k c Hv. exact (active_only_after_accept v Hv m sched k c). Qed.

(* the same for Connect's result and the state, for EVERY return code other than 0 (the code is
   an arbitrary number in the model: 1..5 and all reserved values 6..255 alike refuse) *)
Theorem C16_no_success_without_accepting_code : forall v m sched k c, not_old v ->
  Forall (fun sl => is_label k is_accept sl = false) sched ->
  nth_error (cls (run v (init_sys m) sched)) k = Some c ->
  c_conn c <> CReturned ROk /\ c_conn c <> CGotAck /\ c_state c <> SActive /\ count_state SActive (c_log c) = 0%nat.
Proof. intros v m sched k c Hv. exact (no_success_without_accept v Hv m sched k c). Qed.

(* a CONNACK packet is accepting iff it is well formed and its return code byte is 0, whatever
   its acknowledge-flags byte (connack.go Parse + connect.go:155) *)
Theorem C16_connack_accepting_iff_code_zero : forall hflag contents,
  is_accept (connack_label hflag contents) = true <-> hflag = 0 /\ exists f, contents = [f; 0].
Proof. exact connack_label_accept_iff. Qed.

(* "Closed exactly once when the connection ends without Disconnect having been called,
   together with the non-nil error that ended it (which Err() also returns)" *)
Theorem C16_closed_once_with_error : forall v m sched k c, not_old v ->
  nth_error (cls (run v (init_sys m) sched)) k = Some c ->
  c_done c = true -> c_disc c = DNotStarted ->
  exists e, entries_of SClosed (c_log c) = [(SClosed, Some e)] /\ c_err c = Some e.
Proof. intros v m sched k c Hv. exact (closed_once_with_error v Hv m sched k c). Qed.

(* Closed is never reported twice, whatever races, and not before the reader's exit path
   reached its state update *)
Theorem C16_closed_at_most_once : forall v m sched k c, not_old v ->
  nth_error (cls (run v (init_sys m) sched)) k = Some c ->
  (length (entries_of SClosed (c_log c)) <= 1)%nat /\
  (serve_pre c = true -> entries_of SClosed (c_log c) = []).
Proof. intros v m sched k c Hv. exact (closed_at_most_once v Hv m sched k c). Qed.

(* "Disconnected exactly once when Disconnect is called ..." (it is the last callback) *)
Theorem C16_disconnected_once : forall v m sched k c, not_old v ->
  nth_error (cls (run v (init_sys m) sched)) k = Some c ->
  (c_disc c = DNotStarted -> count_state SDisconnected (c_log c) = 0%nat) /\
  (c_disc c <> DNotStarted ->
     exists l1 e, c_log c = l1 ++ [(SDisconnected, e)] /\ count_state SDisconnected l1 = 0%nat).
Proof. intros v m sched k c Hv. exact (disconnected_once_and_last v Hv m sched k c). Qed.

(* "... after which Closed is never reported": once the state is Disconnected the callback
   log never grows again, whatever happens later *)
Theorem C16_disconnected_once_no_closed_after : forall v m pre post k c c2, not_old v ->
  nth_error (cls (run v (init_sys m) pre)) k = Some c -> c_state c = SDisconnected ->
  nth_error (cls (run v (init_sys m) (pre ++ post))) k = Some c2 ->
  c_log c2 = c_log c /\ c_state c2 = SDisconnected.
Proof. intros v m pre post k c c2 Hv. exact (no_callback_after_disconnected v Hv m pre post k c c2). Qed.

(* "Err() stays nil for a healthy connection ... also when the connection is managed by the
   reconnecting client": no ending cause on THIS connection (transport not closed on this side,
   serve() has not returned, its keep-alive has not failed) -> Err() = nil, whatever the
   goroutines of the other (earlier, later) connections do — that is fix 525edac *)
Theorem C16_err_nil_when_healthy : forall v m sched k c, not_old v ->
  nth_error (cls (run v (init_sys m) sched)) k = Some c ->
  healthy c = true -> c_err c = None.
Proof. intros v m sched k c Hv. exact (err_nil_when_healthy v Hv m sched k c). Qed.

(* "... and after a graceful Disconnect": Disconnect's state update on a healthy connection
   -> Err() = nil from then on, for ever; for a connection with a keep-alive goroutine on the
   current tree with ReconnectClient.Disconnect (which closes c.disconnected first) — fix 15562c2 *)
Theorem C16_err_nil_when_healthy_or_graceful : forall m pre post k c c2,
  nth_error (cls (run VCur (init_sys m) pre)) k = Some c ->
  healthy c = true ->
  enabled VCur (run VCur (init_sys m) pre) (On k LDiscUpdate) = true ->
  (c_managed c = false \/ disc_req (run VCur (init_sys m) pre) = true) ->
  nth_error (cls (run VCur (init_sys m) (pre ++ On k LDiscUpdate :: post))) k = Some c2 ->
  c_err c2 = None /\ c_state c2 = SDisconnected.
Proof.
  intros m pre post k c c2 Hc Hh He Hm Hc2.
  assert (Hv : not_old VCur) by discriminate.
  refine (err_nil_after_graceful_disconnect VCur Hv m pre post k c c2 Hc Hh He _ Hc2).
  destruct Hm as [Hm|Hm]; [left; exact Hm|right; split; [reflexivity|exact Hm]].
Qed.

(* the model can express the two defects that were repaired: before 525edac a stale keep-alive
   goroutine wrote "context canceled" into the next, healthy connection ... *)
Theorem C16_err_nil_prefix_refuted : exists sched k,
  all_enabled VOld (init_sys true) sched = true /\
  healthy (client_at (run VOld (init_sys true) sched) k) = true /\
  c_err (client_at (run VOld (init_sys true) sched) k) <> None.
Proof.
  exists sched_stale_ka, 1%nat. destruct stale_ka_old_refuted as (A & B & C).
  split; [exact A|split; [exact B|]]. rewrite C. discriminate.
Qed.

(* ... and before 15562c2 a PINGREQ in flight during a graceful ReconnectClient.Disconnect
   left Err() non-nil *)
Theorem C16_graceful_inflight_prefix_refuted : exists pre post k,
  all_enabled VMid (init_sys true) (pre ++ On k LDiscUpdate :: post) = true /\
  healthy (client_at (run VMid (init_sys true) pre) k) = true /\
  disc_req (run VMid (init_sys true) pre) = true /\
  c_err (client_at (run VMid (init_sys true) (pre ++ On k LDiscUpdate :: post)) k) <> None.
Proof.
  exists sched_graceful_pre, sched_graceful_post, 0%nat.
  destruct graceful_inflight_mid_refuted as (A & B & C & D & _).
  split; [exact A|split; [exact B|split; [exact C|]]]. rewrite D. discriminate.
Qed.

(* "Done() is closed if and only if the connection has ended": closed exactly when the
   reader's exit path has finished, by then the transport is closed and the end has been
   reported (Closed, or Disconnected if Disconnect came first); never while serve() runs *)
Theorem C16_done_iff_ended : forall v m sched k c, not_old v ->
  nth_error (cls (run v (init_sys m) sched)) k = Some c ->
  (c_done c = true <-> c_serve c = SvFinished) /\
  (c_done c = true -> c_tclosed c = true /\
     (1 <= count_state SClosed (c_log c) \/ 1 <= count_state SDisconnected (c_log c))%nat) /\
  (serve_alive c = true -> c_done c = false).
Proof. intros v m sched k c Hv. exact (done_iff_ended v Hv m sched k c). Qed.

(* ... and every ending does close it: once serve() has returned (any cause), the exit path is
   never blocked by another goroutine; its four steps close Done() *)
Theorem C16_done_after_every_ending : forall v m sched k c e, not_old v ->
  nth_error (cls (run v (init_sys m) sched)) k = Some c -> c_serve c = SvReturned e ->
  exists c4,
    nth_error (cls (run v (init_sys m) (sched ++ [On k LExitClose; On k LExitStore; On k LExitUpdate; On k LExitDone]))) k = Some c4 /\
    c_done c4 = true.
Proof. intros v m sched k c e Hv. exact (exit_path_closes_done v Hv m sched k c e). Qed.

Print Assumptions C16_active_at_most_once.
Print Assumptions C16_active_once_after_accept.
Print Assumptions C16_no_success_without_accepting_code.
Print Assumptions C16_connack_accepting_iff_code_zero.
Print Assumptions C16_closed_once_with_error.
Print Assumptions C16_closed_at_most_once.
Print Assumptions C16_disconnected_once.
Print Assumptions C16_disconnected_once_no_closed_after.
Print Assumptions C16_err_nil_when_healthy.
Print Assumptions C16_err_nil_when_healthy_or_graceful.
Print Assumptions C16_err_nil_prefix_refuted.
Print Assumptions C16_graceful_inflight_prefix_refuted.
Print Assumptions C16_done_iff_ended.
Print Assumptions C16_done_after_every_ending.
