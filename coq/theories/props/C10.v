(* C10 — Safe for concurrent use: no data races, packets never interleave on the wire.  PARTIAL.
   Statements only; proofs in WriteLock_proofs.v and Lockset_proofs.v.

   (a) "the byte stream written to the transport is always a concatenation of whole packets, so
       packets from concurrent callers and from the background acknowledger are never
       interleaved": theorems about the model of BaseClient.write (client.go:99-111), any number
       of threads (callers, keep-alive, the reader goroutine's acknowledgements), any schedule, with
       a transport whose Write is NOT atomic (bytes go out one by one while other threads run).
   (b) "never make conflicting unsynchronised memory accesses": a lock discipline decided on an
       access table regenerated from the source on every run implies, in an abstract interleaving
       semantics with mutual-exclusion locks, that no two threads are ever inside conflicting
       accesses — except for the pairs declared as ordered by publication / configuration
       (CheckC10.c10_exempt), which is why the theorem is named _partial. The Go memory model and
       the translator are not formalised. *)
From Coq Require Import String.
From MQ Require Import Base WriteLock WriteLock_proofs Lockset Lockset_proofs CheckC10.
Open Scope nat_scope.
Open Scope list_scope.

(* (a) in every reachable state, for every schedule and any number of writers: the wire is the
   concatenation of the whole packets of distinct threads that asked to write them, followed by
   the part of the lock holder's own packet that the transport has emitted so far *)
Theorem C10_whole_packets : forall pkts ls,
  let g := run true true (init pkts) ls in
  NoDup (whole_writers g) /\
  (forall t, In t (whole_writers g) -> t < length pkts) /\
  g_out g = concat (map (pkt_of pkts) (whole_writers g)) ++ partial g.
Proof. exact whole_packets. Qed.

(* (a) at most one thread is between Lock() and Unlock() — in particular inside Transport.Write *)
Theorem C10_mutual_exclusion : forall pkts ls t1 t2 th1 th2,
  let g := run true true (init pkts) ls in
  nth_error (g_thr g) t1 = Some th1 -> nth_error (g_thr g) t2 = Some th2 ->
  in_cs (t_pc th1) -> in_cs (t_pc th2) -> t1 = t2.
Proof. exact mutual_exclusion. Qed.

(* (a) every call of Transport.Write is handed exactly one whole packet *)
Theorem C10_one_write_per_packet : forall pkts ls c,
  In c (g_calls (run true true (init pkts) ls)) -> exists t, t < length pkts /\ c = pkt_of pkts t.
Proof. intros pkts ls. exact (one_write_per_packet pkts ls). Qed.

(* (a) with a conforming writer the slice expression b[i : l-i] is never out of range *)
Theorem C10_conforming_never_panics : forall pkts ls t th,
  nth_error (g_thr (run true true (init pkts) ls)) t = Some th -> t_pc th <> Panicked.
Proof. exact conforming_never_panics. Qed.

(* (a), stated separately, outside the whole-packet-writer hypothesis: after a short write
   (0 < i < len b) write never returns nil — b[i : l-i] drops the tail and finally panics
   (WriteLock_proofs.short_write_breaks shows the corrupted wire). Not reachable with an io.Writer
   that returns an error whenever it accepts less than it was given. *)
Theorem C10_short_write_never_returns_nil : forall lock ls g t th,
  nth_error (g_thr g) t = Some th -> stuck_pc (length (t_pkt th)) (t_pc th) ->
  exists th', nth_error (g_thr (run false lock g ls)) t = Some th' /\ t_pkt th' = t_pkt th /\
              stuck_pc (length (t_pkt th')) (t_pc th').
Proof. exact short_write_never_returns_nil. Qed.

(* (b) generic: a table accepted by the discipline has no reachable race between two threads,
   whatever the threads do, unless the pair is one the policy declares exempt *)
Theorem C10_discipline_sound_partial : forall exempt tbl s0 tr a b,
  discipline_ok exempt tbl = true ->
  forallb lt_idle s0 = true -> roles_wf s0 ->
  racing tbl (lrun tbl s0 tr) a b ->
  exempt a b = true \/ exempt b a = true.
Proof. exact discipline_sound. Qed.

(* (b) for mqtt-go's policy: the per-run decision [c10_discipline_ok generated_table = true]
   (evaluated by vm_compute in the generated cases) yields this conclusion for the generated table *)
Theorem C10_no_race_partial : forall tbl s0 tr a b,
  c10_discipline_ok tbl = true ->
  forallb lt_idle s0 = true -> roles_wf s0 ->
  racing tbl (lrun tbl s0 tr) a b ->
  c10_exempt a b = true \/ c10_exempt b a = true.
Proof.
  intros tbl s0 tr a b D. apply andb_true_iff in D as [D _]. exact (discipline_sound _ _ _ _ _ _ D).
Qed.

(* (b) and for fields that are neither configuration nor initialise-once (every Guarded/Confined
   field: handler, connState, err, stats, the waiter maps, cli, taskQueue, retryQueue, …) the
   conclusion is: no race *)
Theorem C10_no_race_guarded : forall tbl s0 tr a b,
  c10_discipline_ok tbl = true ->
  forallb lt_idle s0 = true -> roles_wf s0 ->
  lock_decided a ->
  ~ racing tbl (lrun tbl s0 tr) a b.
Proof.
  intros tbl s0 tr a b D I W G R.
  assert (C : conflicting a b = true) by (destruct R as [? [? [? [? [? [? [_ [_ [_ [_ [_ [_ [_ C]]]]]]]]]]]]]; exact C).
  destruct (c10_lock_decided_not_exempt a b C G) as [E1 E2].
  destruct (C10_no_race_partial _ _ _ _ _ D I W R); congruence.
Qed.

Print Assumptions C10_whole_packets.
Print Assumptions C10_mutual_exclusion.
Print Assumptions C10_one_write_per_packet.
Print Assumptions C10_conforming_never_panics.
Print Assumptions C10_short_write_never_returns_nil.
Print Assumptions C10_discipline_sound_partial.
Print Assumptions C10_no_race_partial.
Print Assumptions C10_no_race_guarded.
