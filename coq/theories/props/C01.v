(* C01 — No accepted QoS>=1 publish, subscribe or unsubscribe request is ever lost.
   Statements: RetryProps.v (about the retry / reconnect system model RetrySys.step, which
   CheckRetry.model_ok compares with the real ReconnectClient on generated fault scenarios).
   Proofs: RetryInv_Acct.v (what one task does to the queues and the wire), RetryInv_AcctSys.v
   (invariants I-conn, I-acct), RetryInv_AcctLive.v (explicit recovery). *)
From MQ Require Import Base RetryCore RetrySys CheckRetry RetryProps
  RetryInv_Acct RetryInv_AcctSys RetryInv_AcctLive.

(* "Every QoS 1 or QoS 2 publish and every subscribe or unsubscribe request that the retrying /
   reconnecting client accepted (returned nil) ... whether it was submitted before the first
   connection, while connected or during an outage, and wherever connections break":
   safety half.  For every label sequence (submissions, task goroutine, reconnect loop, any fault
   plan) leading to a state in which the task goroutine is not stuck for ever (w_hung = false;
   that case is C18's subject), every accepted request that needs an acknowledgement is either
   acknowledged on the wire (PUBACK of its QoS 1 PUBLISH, PUBCOMP of its PUBREL, SUBACK, UNSUBACK:
   CheckRetry.final_acked) or still held, exactly once and in submission order, in the retry queue
   or the task queue; and it was never given up (w_dropped).
   Hypothesis wf_labels: request uids are positive and increasing in submission order (ghost
   numbering; packet identifiers do not collide: C15). *)
Theorem C01_no_loss : C01_no_loss_stmt.
Proof. exact RetryInv_AcctSys.no_loss. Qed.
Print Assumptions C01_no_loss.

(* "... is eventually carried out and acknowledged by the broker (PUBACK, PUBCOMP, SUBACK or UNSUBACK
   for it arrives on some connection) ... This holds as long as the broker eventually stays reachable
   and Disconnect is not called": liveness half.  From every reachable, not hung state, if the
   connections numbered K and above are fault-free (reliable_from), there is a continuation without
   further submissions after which every accepted request that needs one has its acknowledgement
   on the wire, both queues are empty and the client is idle on a live connection (quiescent).
   (Disconnect is not a label of the model.) *)
Theorem C01_eventually_acked : C01_eventually_acked_stmt.
Proof. exact RetryInv_AcctLive.eventually_acked. Qed.
Print Assumptions C01_eventually_acked.

(* Consequence for EVERY schedule and fault plan, without any fairness assumption: whenever the client is
   idle on a live connection for which the reconnect loop has queued its tasks (quiescent), every
   accepted request that needs an acknowledgement has been acknowledged. *)
Theorem C01_idle_means_all_acked : forall cfg fp ls s,
  run cfg fp sys0 ls = Some s -> wf_labels ls -> quiescent s ->
  forall o, In o (s_submitted s) -> needs_ack o = true -> In (uop_uid o) (final_acked (wire_of s)).
Proof.
  intros cfg fp ls s Hrun Hwf (Hq & Ht & _ & Hh & _) o Ho Hn.
  destruct (C01_no_loss cfg fp ls s Hrun Hwf Hh) as (H & _ & _).
  destruct (H o Ho Hn) as [Ha | Hp]; [exact Ha|].
  unfold pending_uids in Hp. rewrite Hq, Ht in Hp. cbn in Hp. contradiction.
Qed.
Print Assumptions C01_idle_means_all_acked.
