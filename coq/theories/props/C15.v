(* C15 — Packet identifiers are non-zero and unique among outstanding requests.
   Statements only; proofs in Ids_proofs.v. Model (Ids.v): [run_conc s progs sched] = what any
   number of callers (programs [progs]) put on the wire when the counter idLast starts at [s]
   (ANY value, also >= 2^32 - 1 or a multiple of 2^16) and the atomic increments of uniqid.go:32
   are linearised as [sched] says; [run_seq s h] = one caller executing newID as written
   (recursion on 0). Observations: [OIssue caller request identifier], [OAck request-ordinal]. *)
From MQ Require Import Base Ids Ids_proofs CheckC15.
Open Scope N_scope.

(* "Packet identifiers chosen by the client are never 0": for all start values, all numbers of
   callers, all request mixes, all schedules, every identifier the library chooses is in 1..65535 *)
Theorem C15_nonzero : forall s progs sched k r id,
  In (OIssue k r id) (run_conc s progs sched) -> is_auto r = true -> 1 <= id <= 65535.
Proof.
  intros s progs sched k r id Hin Ha.
  pose proof (canonical_nonzero s _ (run_conc_canonical s progs sched)) as H.
  unfold nonzero_ok in H. rewrite forallb_forall in H. specialize (H _ Hin). cbn in H.
  rewrite Ha in H. unfold M16 in H. lia.
Qed.

(* the same for newID as written (sequential caller), with the recursion of uniqid.go:33-35: for
   every counter value it ends after at most one retry (any fuel >= 2 gives the same result) *)
Theorem C15_nonzero_seq : forall s h k r id,
  In (OIssue k r id) (run_seq s h) -> is_auto r = true -> 1 <= id <= 65535.
Proof.
  intros s h k r id Hin Ha.
  pose proof (canonical_nonzero s _ (run_seq_canonical s h)) as H.
  unfold nonzero_ok in H. rewrite forallb_forall in H. specialize (H _ Hin). cbn in H.
  rewrite Ha in H. unfold M16 in H. lia.
Qed.

Theorem C15_one_retry : forall fuel last, (2 <= fuel)%nat ->
  new_id_fuel fuel last = Some (new_id last) /\
  (new_id_fuel 1 last = None <-> add1 last mod M16 = 0).
Proof. intros fuel last H. split; [apply new_id_fuel_enough; exact H | apply new_id_fuel_one]. Qed.

(* "for any number of concurrent callers": the increment is atomic, so which caller performs it is
   irrelevant — every execution chooses the identifiers [issued s 0], [issued s 1], ... in
   linearisation order, where issued s n = (s mod 2^16 + n) mod 65535 + 1; two executions that
   choose equally many identifiers choose the same ones, whatever the callers and schedules, and
   the same ones as a single sequential caller *)
Theorem C15_schedule_independent : forall s progs1 sched1 progs2 sched2,
  length (auto_ids (run_conc s progs1 sched1)) = length (auto_ids (run_conc s progs2 sched2)) ->
  auto_ids (run_conc s progs1 sched1) = auto_ids (run_conc s progs2 sched2).
Proof. exact schedule_independent. Qed.

Theorem C15_closed_form : forall s progs sched h,
  auto_ids (run_conc s progs sched) = issued_list s 0 (length (auto_ids (run_conc s progs sched))) /\
  auto_ids (run_seq s h) = issued_list s 0 (length (auto_ids (run_seq s h))).
Proof. intros. split; [apply run_conc_canonical | apply run_seq_canonical]. Qed.

(* "no identifier is given to two requests that are outstanding at the same time", the part that
   holds. (1) Arithmetic core: two choices fewer than 65,535 apart give different identifiers. *)
Theorem C15_window_arith : forall s i j, i < j -> j - i < 65535 -> issued s i <> issued s j.
Proof. exact issued_inj_window. Qed.

(* (2) In EVERY history (no hypothesis): whenever the library chooses an identifier for a request
   that will wait for an acknowledgement, it differs from the identifier of every outstanding
   library-numbered request after which fewer than 65,535 identifiers have been chosen, this one
   included ([young_ok], Ids.v). *)
Theorem C15_window_distinct : forall s progs sched, young_ok (run_conc s progs sched) = true.
Proof. intros. apply (canonical_young s). apply run_conc_canonical. Qed.

Theorem C15_window_distinct_seq : forall s h, young_ok (run_seq s h) = true.
Proof. intros. apply (canonical_young s). apply run_seq_canonical. Qed.

(* (3) Hence: if no request stays outstanding while 65,535 further identifiers are chosen
   ([window_ok]), no two outstanding requests ever share an identifier ([strict_ok]). *)
Theorem C15_unique_if_window : forall s progs sched,
  window_ok (run_conc s progs sched) = true -> strict_ok (run_conc s progs sched) = true.
Proof. intros s progs sched H. apply window_strict; [exact H | apply C15_window_distinct]. Qed.

(* (4) "up to 65,535 outstanding": up to 65,535 identifiers chosen back to back (nothing
   acknowledged in between, any callers, any schedule) are pairwise different. *)
Theorem C15_back_to_back : forall s progs sched,
  N.of_nat (length (auto_ids (run_conc s progs sched))) <= 65535 ->
  NoDup (auto_ids (run_conc s progs sched)).
Proof. intros s progs sched H. rewrite run_conc_canonical. apply issued_list_NoDup. exact H. Qed.

(* "across wrap-around of the counter": the 32-bit wrap leaves the low half alone (2^32 is a
   multiple of 2^16), the counter stays a uint32, and in every execution each chosen identifier is
   its predecessor + 1, with 1 after 65535 — starting after the low half of the start value,
   whatever its upper half, hence also across 0xFFFF -> 0x10000 and 0xFFFFFFFF -> 0. *)
Theorem C15_wrap : forall s progs sched h,
  chain_from (s mod M16) (auto_ids (run_conc s progs sched)) /\
  chain_from (s mod M16) (auto_ids (run_seq s h)) /\
  (forall x, (x mod M32) mod M16 = x mod M16) /\
  (s < M32 -> final_counter s h < M32).
Proof.
  intros s progs sched h.
  split; [apply canonical_chain, run_conc_canonical|].
  split; [apply canonical_chain, run_seq_canonical|].
  split; [exact lo_mod32 | apply final_counter_lt].
Qed.

(* "an identifier the caller already put on a message is used unchanged" — and such a request
   does not move the counter: the identifiers chosen for the other requests are the same with or
   without it *)
Theorem C15_caller_id_kept : forall s progs sched h,
  given_kept (run_conc s progs sched) = true /\
  given_kept (run_seq s h) = true /\
  auto_ids (run_seq s h) = auto_ids (run_seq s (filter not_given h)) /\
  final_counter s h = final_counter s (filter not_given h).
Proof.
  intros s progs sched h.
  split; [apply run_conc_given_kept|]. split; [apply run_seq_given_kept|].
  apply run_seq_given_transparent.
Qed.

(* the same through the retrying client (retryclient.go): whatever the application publishes (QoS,
   own identifier or none), however many connections there are, whatever their counters, wherever
   they are cut — every PUBLISH attempt, first or repeated, sent directly or deferred behind a
   pending retry (the queued copy is the whole message value, retryclient.go:167-173), carries a
   non-zero identifier, and the caller's own whenever the caller provided one *)
Theorem C15_caller_id_kept_retry : forall ops conn m,
  In (conn, m) (run_retry ops) ->
  r_id m <> 0 /\ (r_given m <> 0 -> r_id m = r_given m).
Proof.
  intros ops conn m Hin. pose proof (retry_sent_ok ops) as H. unfold wire_ok in H.
  rewrite Forall_forall in H. specialize (H _ Hin). cbn [snd] in H. unfold sent_ok in H.
  apply andb_true_iff in H as [H1 H2]. apply negb_true_iff in H1. apply N.eqb_neq in H1.
  split; [exact H1|]. intros Hg. apply orb_true_iff in H2 as [H2|H2]; apply N.eqb_eq in H2; congruence.
Qed.

(* The statement as written ("no identifier is given to two requests outstanding at the same
   time ... up to 65,535 outstanding") is FALSE for the code: there is a history with never more
   than two requests outstanding in which two outstanding requests share an identifier (one
   request never acknowledged, 65,535 further requests each acknowledged at once) — finding F13.
   The identifier comes back after exactly 65,535 choices from every start value. *)
Theorem C15_strict_refuted : exists s h,
  atmost_ok 2 (run_seq s h) = true /\ strict_ok (run_seq s h) = false.
Proof. exists 100, (f13_history P16). exact f13_witness. Qed.

Theorem C15_reuse_period : forall s n, issued s (n + 65535) = issued s n.
Proof. exact issued_period. Qed.

(* the predicate the harness evaluates on what the implementation did (V_* results, CheckC15.v)
   is exactly what is proved of every run of the model *)
Theorem C15_checked_predicate : forall s progs sched h,
  c15_prop_ok (run_conc s progs sched) = true /\ c15_prop_ok (run_seq s h) = true.
Proof.
  intros s progs sched h. unfold c15_prop_ok. split.
  - rewrite (canonical_nonzero s _ (run_conc_canonical s progs sched)),
            (canonical_young s _ (run_conc_canonical s progs sched)), run_conc_given_kept. reflexivity.
  - rewrite (canonical_nonzero s _ (run_seq_canonical s h)),
            (canonical_young s _ (run_seq_canonical s h)), run_seq_given_kept. reflexivity.
Qed.

(* identifiers drawn by retry handles: the handle of an interrupted SUBSCRIBE / UNSUBSCRIBE run on
   another client B is an ordinary new request of B — its identifier comes from B's counter, the
   counter a of the client the request was first sent on does not enter — and the handle of a
   publish carries the identifier the message already has (non-zero) without moving B's counter.
   Whatever the handle, what is observed on B is a run of the sequential model, so the window
   theorem and non-zero-ness hold per connection, retransmissions included. *)
Theorem C15_retry_handle_target : forall a r b hB q g,
  run_handle_on a RSub b hB = run_seq b (hB ++ [HReq RSub]) /\
  run_handle_on a RUnsub b hB = run_seq b (hB ++ [HReq RUnsub]) /\
  final_counter b (hB ++ [HReq (handle_req (interrupt a (RPub q g)))]) = final_counter b hB /\
  c15_prop_ok (run_handle_on a r b hB) = true.
Proof.
  intros a r b hB q g. destruct (handle_sub_fresh a b hB) as [H1 H2].
  split; [exact H1|]. split; [exact H2|]. split; [apply handle_pub_keeps|].
  unfold run_handle_on. apply (C15_checked_predicate b [] [] _).
Qed.

(* identifiers are never stepped back, and nothing the broker sends moves them: the n-th identifier
   handed out depends on the start value and on n only — [issued s n] — whatever happens in between:
   requests acknowledged, abandoned, their write rejected, and INBOUND packets of any kind carrying
   any identifier (HIn / LIn: PUBLISH QoS 0/1/2, PUBREL; the two directions are independent name
   spaces). Dropping all these events from a history or a schedule changes neither the identifiers
   nor the counter. The fault-injection and inbound-traffic families lean on this. *)
Theorem C15_never_stepped_back : forall s h progs sched,
  auto_ids (run_seq s h) = auto_ids (run_seq s (filter is_hreq h)) /\
  final_counter s h = final_counter s (filter is_hreq h) /\
  auto_ids (run_seq s h) = issued_list s 0 (length (auto_ids (run_seq s h))) /\
  auto_ids (run_conc s progs sched) = auto_ids (run_conc s progs (filter is_lstep sched)).
Proof.
  intros s h progs sched. destruct (ids_ignore_ends s h) as [H1 H2].
  split; [exact H1|]. split; [exact H2|]. split; [apply run_seq_canonical | apply conc_ignores_inbound].
Qed.

(* non-vacuity: inbound packets with the most awkward identifiers between the requests *)
Example C15_inbound_example :
  auto_ids (run_seq 65532 [HReq RSub; HReq (RPub 1 0); HReq RUnsub; HReq (RPub 2 0); HIn 1 65533;
                           HIn 2 65535; HIn 3 1; HIn 0 0; HReq RSub; HReq (RPub 1 0)])
  = [65533; 65534; 65535; 1; 2; 3].
Proof. vm_compute; reflexivity. Qed.

Print Assumptions C15_nonzero.
Print Assumptions C15_nonzero_seq.
Print Assumptions C15_one_retry.
Print Assumptions C15_schedule_independent.
Print Assumptions C15_closed_form.
Print Assumptions C15_window_arith.
Print Assumptions C15_window_distinct.
Print Assumptions C15_window_distinct_seq.
Print Assumptions C15_unique_if_window.
Print Assumptions C15_back_to_back.
Print Assumptions C15_wrap.
Print Assumptions C15_caller_id_kept.
Print Assumptions C15_caller_id_kept_retry.
Print Assumptions C15_retry_handle_target.
Print Assumptions C15_never_stepped_back.
Print Assumptions C15_strict_refuted.
Print Assumptions C15_reuse_period.
Print Assumptions C15_checked_predicate.
