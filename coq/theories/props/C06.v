(* C06 — Arbitrary broker bytes never crash the client; malformed input ends the link.
   Statements only; proofs in Parse_proofs.v. [serve] is the model of readPacket + the parsers +
   the dispatch of BaseClient.serve on a byte stream; a Go panic is the explicit outcome
   [Panic]/[EndPanic]; [EvAlloc n] records every make([]byte, n) for a packet body. *)
From MQ Require Import Base Codec Inbound Parse ParseSpec Parse_proofs ParsePending ParsePending_proofs ParseExit ParseExit_proofs ParseResub ParseResub_proofs ParseMux ParseMux_proofs.
Open Scope N_scope.

(* for every byte string handed to each packet parser: no panic *)
Theorem C06_parsers_no_panic : forall flag body,
  parse_connack flag body <> Panic /\ parse_publish flag body <> Panic /\
  parse_puback flag body <> Panic /\ parse_pubrec flag body <> Panic /\
  parse_pubrel flag body <> Panic /\ parse_pubcomp flag body <> Panic /\
  parse_suback flag body <> Panic /\ parse_unsuback flag body <> Panic /\
  parse_pingresp flag body <> Panic.
Proof. exact parsers_no_panic. Qed.

(* for every byte stream: the reader never panics (and the model's fuel is never exhausted) *)
Theorem C06_no_panic : forall handler s, snd (serve handler s) <> EndPanic.
Proof. exact serve_no_panic. Qed.

Theorem C06_fuel_irrelevant : forall handler s, snd (serve handler s) <> EndFuel.
Proof. exact serve_fuel_sufficient. Qed.

(* ... and never asks for more than the protocol's maximum packet size for one packet *)
Theorem C06_alloc_bound : forall handler s n, In (EvAlloc n) (fst (serve handler s)) -> n <= 268435455.
Proof. exact serve_alloc_bound. Qed.

(* a malformed packet (illegal flags, QoS 3, unknown or client-to-server type, body shorter than
   its fixed fields, U+0000 in a topic, CONNACK length other than 2 — [malformed] is written from
   the property's list, independently of the parsers) ends the loop with a protocol error, and the
   well-formed packets that preceded it are processed exactly as without it *)
Theorem C06_prefix_then_malformed : forall handler fs t fl b rest,
  Forall frame_ok fs -> forallb well_formed fs = true ->
  frame_ok (t, fl, b) -> malformed t fl b = true ->
  exists e, protocol_error e /\
    serve handler (enc_frames fs ++ enc_frames [(t, fl, b)] ++ rest)
    = (fst (serve handler (enc_frames fs)) ++ [EvAlloc (len b)], EndErr e).
Proof. exact serve_prefix_then_malformed. Qed.

(* over-long (also non-terminating) length field: rejected at the fourth continuation bit *)
Theorem C06_prefix_then_overlong : forall handler fs hd c1 c2 c3 c4 rest,
  Forall frame_ok fs -> forallb well_formed fs = true ->
  128 <= c1 -> 128 <= c2 -> 128 <= c3 -> 128 <= c4 ->
  serve handler (enc_frames fs ++ hd :: c1 :: c2 :: c3 :: c4 :: rest)
  = (fst (serve handler (enc_frames fs)), EndErr EInvalidPacketLength).
Proof. exact serve_prefix_then_overlong. Qed.

(* truncation anywhere inside a packet: earlier packets processed, then EOF / unexpected EOF *)
Theorem C06_prefix_then_truncated : forall handler fs t fl b x pre suf,
  Forall frame_ok fs -> forallb well_formed fs = true -> frame_ok (t, fl, b) ->
  pack (t * 16 + fl) b = Some x -> x = pre ++ suf -> suf <> [] ->
  exists al e, (e = EEOF \/ e = EUnexpectedEOF) /\ (al = [] \/ al = [EvAlloc (len b)]) /\
    serve handler (enc_frames fs ++ pre) = (fst (serve handler (enc_frames fs)) ++ al, EndErr e).
Proof. exact serve_prefix_then_truncated. Qed.

(* well-formed packets alone never end the link: the loop runs until the peer closes *)
Theorem C06_wellformed_runs_to_eof : forall handler fs, Forall frame_ok fs -> forallb well_formed fs = true ->
  snd (serve handler (enc_frames fs)) = EndErr EEOF.
Proof. exact serve_wellformed_then_eof. Qed.

(* every frame within protocol limits is read back exactly *)
Theorem C06_read_packet_frame : forall typ flag body b rest, typ < 16 -> flag < 16 ->
  pack (typ * 16 + flag) body = Some b ->
  read_packet (b ++ rest) = (RP_ok typ flag body rest, Some (len body)).
Proof. exact read_packet_frame. Qed.

(* the same for EVERY byte stream, without assuming a shape: the link ends with a protocol error
   exactly when the stream, cut into frames by the protocol's framing, contains a malformed packet
   or a fifth length byte ([has_malformed], ParseSpec.v); otherwise it runs until the peer closes *)
Theorem C06_malformed_iff_protocol_error : forall handler s,
  exists e, snd (serve handler s) = EndErr e /\
    if has_malformed s then protocol_error e else (e = EEOF \/ e = EUnexpectedEOF).
Proof. exact serve_classified. Qed.

(* "well-formed packets that preceded it are processed normally", for EVERY byte stream: the
   hand-overs (message content included) and acknowledgements of the reader are exactly what the
   abstract receiver of MQTT 3.1.1 section 4.3 (Inbound.spec_run, C04's specification) prescribes for
   the well-formed PUBLISH / PUBREL packets before the first malformed packet — a QoS 2 message
   is handed over at its PUBREL with the content it was sent with, whatever arrived in between *)
Theorem C06_prefix_processed_normally : forall handler s,
  sv_in_events (fst (serve handler s)) = expected_events handler s.
Proof. exact serve_processes_prefix_normally. Qed.

(* "U+0000 in a topic": for ALL byte strings pre, post (well-formed UTF-8 or not: multi-byte
   characters, stray continuation bytes, truncated and overlong sequences, FF) a byte 00 between
   them decodes to the rune U+0000 under Go's []rune(string) conversion ... *)
Theorem C06_nul_decodes_anywhere : forall pre post, In 0 (decode_runes (pre ++ 0 :: post)).
Proof. intros pre post. apply decode_runes_nul, in_or_app. right. left. reflexivity. Qed.

(* ... so a PUBLISH whose topic contains it anywhere is malformed in the sense of
   C06_prefix_then_malformed and refused by the parser with a protocol error *)
Theorem C06_nul_anywhere_in_topic : forall flag hi lo pre post r,
  N.to_nat (hi * 256 + lo) = length (pre ++ 0 :: post) ->
  malformed 3 flag (hi :: lo :: (pre ++ 0 :: post) ++ r) = true /\
  exists e, parse_publish flag (hi :: lo :: (pre ++ 0 :: post) ++ r) = Err e /\ protocol_error e.
Proof. exact publish_nul_anywhere. Qed.

(* requests in flight. The goroutine that called Subscribe with any number of filters never
   panics, whatever number of return codes the SUBACK carries (the copy loop of subscribe.go:105
   is bounded by the peer's count; [copy_codes_surplus_panics] shows the count check is what
   keeps its index in range) ... *)
Theorem C06_suback_any_count_no_panic : forall subs codes, subscribe_complete subs codes <> Panic.
Proof. exact subscribe_complete_no_panic. Qed.

(* ... a count that differs from the request is ErrInvalidSubAck (and the transport is closed) *)
Theorem C06_suback_count : forall subs codes,
  subscribe_complete subs codes =
  if Nat.eqb (length codes) (length subs) then Ok codes else Err CEInvalidSubAck.
Proof. exact subscribe_complete_spec. Qed.

(* for every set of requests in flight and every byte stream the peer answers with: neither the
   reader nor a calling goroutine panics, the loop ends, and every call returns *)
Theorem C06_inflight_no_panic : forall handler pd s, snd (serve_with handler pd s) <> EndPanic.
Proof. exact serve_with_no_panic. Qed.

Theorem C06_inflight_ends : forall handler pd s, exists e, snd (serve_with handler pd s) = EndErr e.
Proof. exact serve_with_ends. Qed.

Theorem C06_inflight_all_return : forall handler pd s c, In c (callers pd) ->
  exists r, In (PdDone c r) (fst (serve_with handler pd s)).
Proof. exact serve_with_all_return. Qed.

(* a SUBACK with the identifier of a Subscribe in flight and a wrong number of return codes: that
   call gets ErrInvalidSubAck, the link ends, every other call returns ErrClosedTransport *)
Theorem C06_inflight_wrong_count : forall handler c id subs codes x rest pd,
  length codes <> length subs -> id < 65536 ->
  pack 144 (id / 256 :: id mod 256 :: codes) = Some x ->
  serve_with handler ((c, WSub subs, id) :: pd) (x ++ rest)
  = (PdSv (EvAlloc (len (id / 256 :: id mod 256 :: codes))) :: PdSv (EvAck 9 id)
       :: PdDone c CRInvalidSubAck :: close_all pd, EndErr EEOF).
Proof. exact serve_with_wrong_count. Qed.

(* with nothing in flight the extended loop is the loop the theorems above speak about *)
Theorem C06_inflight_conservative : forall f handler sb s,
  serve_pending f handler sb [] s
  = (lift_sv (fst (serve_stream f handler sb s)), snd (serve_stream f handler sb s)).
Proof. exact serve_pending_nil. Qed.

(* "ends the connection with an error observable through Err() and the state callback": for EVERY
   byte stream the link ends; its life after serve() returned is the order of connect.go:120-132
   (close the transport, store the error, report StateClosed with it, close Done()), so at every
   moment at which Done() is closed — the moment waiting requests and the reconnect loop learn that
   the link is down — Err() already holds the loop's error, the callback has already delivered it
   and the transport is closed; for a stream with a malformed packet it is a protocol error.
   ([ex_done_first_is_unsafe]: closing Done() first does not satisfy this.) *)
Theorem C06_error_observable_when_done : forall handler s,
  exists e, snd (serve handler s) = EndErr e /\
    Forall (done_implies_observable e) (link_states handler s) /\
    (exists l, In l (link_states handler s) /\ lk_done l = true) /\
    (if has_malformed s then protocol_error e else (e = EEOF \/ e = EUnexpectedEOF)).
Proof. exact link_done_implies_observable. Qed.

(* Transport.Close() — which may block — is entered with Done() still open *)
Theorem C06_close_before_done : forall e l,
  state_at_close link0 (exit_steps e) = Some l -> lk_done l = false.
Proof. exact close_entered_before_done. Qed.

(* bytes of a SUBACK never reach the SUBSCRIBE encoder (whose Pack panics for a QoS outside 0..2):
   what a RetryClient asks for again after a reconnection is a function of the application's
   Subscribe arguments only — for EVERY history of Subscribe calls answered with ANY return codes
   (0x80, reserved values, any count) ... *)
Theorem C06_resubscription_ignores_suback : forall ops1 ops2 est,
  map fst ops1 = map fst ops2 -> rc_history est ops1 = rc_history est ops2.
Proof. exact rc_history_ignores_codes. Qed.

(* ... so, the application having asked for QoS 0..2, no request of Resubscribe makes Pack panic
   on the RetryClient's task goroutine ([ex_refused_then_resubscribed]: asking for a granted 0x80
   again would) *)
Theorem C06_resubscribe_never_panics : forall ops id req,
  Forall (fun op => Forall qos_ok (fst op)) ops ->
  In req (resubscribe (rc_history [] ops)) -> sub_pack id req <> Panic.
Proof. exact resubscribe_never_panics. Qed.

(* a broker-chosen topic name reaches topicFilter.Match (ServeMux) on the reader goroutine: for
   EVERY topic, the empty one included, strings.Split yields at least one level, which is all the
   level-by-level comparison of filter.go:52-66 ever indexes ([fmatch] tests the bound first) *)
Theorem C06_topic_always_has_a_level : forall topic, exists l r, split_levels topic = l :: r.
Proof. exact split_levels_nonempty. Qed.

Print Assumptions C06_parsers_no_panic.
Print Assumptions C06_no_panic.
Print Assumptions C06_fuel_irrelevant.
Print Assumptions C06_alloc_bound.
Print Assumptions C06_prefix_then_malformed.
Print Assumptions C06_prefix_then_overlong.
Print Assumptions C06_prefix_then_truncated.
Print Assumptions C06_wellformed_runs_to_eof.
Print Assumptions C06_read_packet_frame.

Print Assumptions C06_nul_decodes_anywhere.
Print Assumptions C06_nul_anywhere_in_topic.
Print Assumptions C06_suback_any_count_no_panic.
Print Assumptions C06_suback_count.
Print Assumptions C06_inflight_no_panic.
Print Assumptions C06_inflight_ends.
Print Assumptions C06_inflight_all_return.
Print Assumptions C06_inflight_wrong_count.
Print Assumptions C06_inflight_conservative.
Print Assumptions C06_malformed_iff_protocol_error.
Print Assumptions C06_prefix_processed_normally.
Print Assumptions C06_error_observable_when_done.
Print Assumptions C06_close_before_done.
Print Assumptions C06_resubscription_ignores_suback.
Print Assumptions C06_resubscribe_never_panics.
Print Assumptions C06_topic_always_has_a_level.
