(* C06 — Arbitrary broker bytes never crash the client; malformed input ends the link.
   Statements only; proofs in Parse_proofs.v. [serve] is the model of readPacket + the parsers +
   the dispatch of BaseClient.serve on a byte stream; a Go panic is the explicit outcome
   [Panic]/[EndPanic]; [EvAlloc n] records every make([]byte, n) for a packet body. *)
From MQ Require Import Base Codec Inbound Parse Parse_proofs.
Open Scope N_scope.

(* for every byte string handed to each packet parser: no panic *)
Theorem C06_parsers_no_panic : forall flag body,
  parse_connack flag body <> Panic /\ parse_publish flag body <> Panic /\
  parse_puback flag body <> Panic /\ parse_pubrec flag body <> Panic /\
  parse_pubrel flag body <> Panic /\ parse_pubcomp flag body <> Panic /\
  parse_suback flag body <> Panic /\ parse_unsuback flag body <> Panic /\
  parse_pingresp flag body <> Panic.
Proof. exact parsers_no_panic. Qed.

(* for every byte stream: the reader never panics (and the model's fuel is never exhausted) *)
Theorem C06_no_panic : forall handler s, snd (serve handler s) <> EndPanic.
Proof. exact serve_no_panic. Qed.

Theorem C06_fuel_irrelevant : forall handler s, snd (serve handler s) <> EndFuel.
Proof. exact serve_fuel_sufficient. Qed.

(* ... and never asks for more than the protocol's maximum packet size for one packet *)
Theorem C06_alloc_bound : forall handler s n, In (EvAlloc n) (fst (serve handler s)) -> n <= 268435455.
Proof. exact serve_alloc_bound. Qed.

(* a malformed packet (illegal flags, QoS 3, unknown or client-to-server type, body shorter than
   its fixed fields, U+0000 in a topic, CONNACK length other than 2 — [malformed] is written from
   the property's list, independently of the parsers) ends the loop with a protocol error, and the
   well-formed packets that preceded it are processed exactly as without it *)
Theorem C06_prefix_then_malformed : forall handler fs t fl b rest,
  Forall frame_ok fs -> forallb well_formed fs = true ->
  frame_ok (t, fl, b) -> malformed t fl b = true ->
  exists e, protocol_error e /\
    serve handler (enc_frames fs ++ enc_frames [(t, fl, b)] ++ rest)
    = (fst (serve handler (enc_frames fs)) ++ [EvAlloc (len b)], EndErr e).
Proof. exact serve_prefix_then_malformed. Qed.

(* over-long (also non-terminating) length field: rejected at the fourth continuation bit *)
Theorem C06_prefix_then_overlong : forall handler fs hd c1 c2 c3 c4 rest,
  Forall frame_ok fs -> forallb well_formed fs = true ->
  128 <= c1 -> 128 <= c2 -> 128 <= c3 -> 128 <= c4 ->
  serve handler (enc_frames fs ++ hd :: c1 :: c2 :: c3 :: c4 :: rest)
  = (fst (serve handler (enc_frames fs)), EndErr EInvalidPacketLength).
Proof. exact serve_prefix_then_overlong. Qed.

(* truncation anywhere inside a packet: earlier packets processed, then EOF / unexpected EOF *)
Theorem C06_prefix_then_truncated : forall handler fs t fl b x pre suf,
  Forall frame_ok fs -> forallb well_formed fs = true -> frame_ok (t, fl, b) ->
  pack (t * 16 + fl) b = Some x -> x = pre ++ suf -> suf <> [] ->
  exists al e, (e = EEOF \/ e = EUnexpectedEOF) /\ (al = [] \/ al = [EvAlloc (len b)]) /\
    serve handler (enc_frames fs ++ pre) = (fst (serve handler (enc_frames fs)) ++ al, EndErr e).
Proof. exact serve_prefix_then_truncated. Qed.

(* well-formed packets alone never end the link: the loop runs until the peer closes *)
Theorem C06_wellformed_runs_to_eof : forall handler fs, Forall frame_ok fs -> forallb well_formed fs = true ->
  snd (serve handler (enc_frames fs)) = EndErr EEOF.
Proof. exact serve_wellformed_then_eof. Qed.

(* every frame within protocol limits is read back exactly *)
Theorem C06_read_packet_frame : forall typ flag body b rest, typ < 16 -> flag < 16 ->
  pack (typ * 16 + flag) body = Some b ->
  read_packet (b ++ rest) = (RP_ok typ flag body rest, Some (len body)).
Proof. exact read_packet_frame. Qed.

Print Assumptions C06_parsers_no_panic.
Print Assumptions C06_no_panic.
Print Assumptions C06_fuel_irrelevant.
Print Assumptions C06_alloc_bound.
Print Assumptions C06_prefix_then_malformed.
Print Assumptions C06_prefix_then_overlong.
Print Assumptions C06_prefix_then_truncated.
Print Assumptions C06_wellformed_runs_to_eof.
Print Assumptions C06_read_packet_frame.
