(* C14 — Topic filters validate/match per MQTT 4.7; ServeMux dispatches accordingly.
   Statements only; proofs are in Filter_proofs.v. *)
From MQ Require Import Base Filter Filter_proofs.

(* the level decomposition used by the spec is the one strings.Split computes, and it is unique *)
Theorem C14_levels : forall s ls, levels_of s ls <-> ls = split s.
Proof. intros s ls; split; [apply levels_of_unique | intros ->; apply split_levels_of]. Qed.

(* a filter is accepted exactly when it is a valid MQTT 3.1.1 topic filter *)
Theorem C14_accept_iff_valid : forall s, (exists tf, new_topic_filter s = Some tf) <-> valid_filter s.
Proof. exact accept_iff_valid. Qed.

(* an accepted filter matches a topic exactly when the level-wise rules of 4.7 say so *)
Theorem C14_match_iff_spec : forall s tf topic, new_topic_filter s = Some tf ->
  (filter_match tf topic = true <-> filter_matches_topic s topic).
Proof. exact filter_match_iff_spec. Qed.

(* ServeMux invokes exactly the registered handlers whose filter matches, in registration order *)
Theorem C14_mux : forall regs topic, select_rel topic regs (mux_serve (mux_of regs) topic).
Proof. exact mux_dispatch. Qed.

Theorem C14_mux_unique : forall topic regs h1 h2,
  select_rel topic regs h1 -> select_rel topic regs h2 -> h1 = h2.
Proof. exact select_rel_functional. Qed.

(* --- "ServeMux invokes exactly the registered handlers ..." over arbitrary histories ---
   Any number of ServeMux values, any interleaving of Handle(filter, handler) and Serve(topic) on
   them (in particular Handle after Serve, repeated topics, rejected filters in between): the k-th
   operation yields exactly the event [op_spec] prescribes. *)

(* every Serve invokes exactly the handlers registered BEFORE it on the same ServeMux whose
   filter is valid and matches the topic, in registration order *)
Theorem C14_mux_ops_serve : forall ops k i t, nth_error ops k = Some (OpServe i t) ->
  exists hs, nth_error (muxes_run muxes_empty ops) k = Some (EvServe hs) /\
             select_rel t (regs_on i (firstn k ops)) hs.
Proof. exact muxes_serve_spec. Qed.

(* every Handle, wherever it occurs in a history, is accepted exactly when the filter is valid *)
Theorem C14_mux_ops_handle : forall ops k i f h, nth_error ops k = Some (OpHandle i f h) ->
  exists b, nth_error (muxes_run muxes_empty ops) k = Some (EvHandle b) /\ (b = true <-> valid_filter f).
Proof. exact muxes_handle_spec. Qed.

(* both clauses at once, one event per operation, and the prescription determines the event *)
Theorem C14_mux_ops : forall ops k, (k < length ops)%nat ->
  exists e, nth_error (muxes_run muxes_empty ops) k = Some e /\ op_spec ops k e.
Proof. exact muxes_run_spec. Qed.

Theorem C14_mux_ops_unique : forall ops k e1 e2, op_spec ops k e1 -> op_spec ops k e2 -> e1 = e2.
Proof. exact op_spec_functional. Qed.

(* the predicate evaluated on observed histories (CheckC14.ops_prop_ok) decides [op_spec] *)
Theorem C14_mux_ops_decided : forall ops k e, op_expected ops k = Some e <-> op_spec ops k e.
Proof. exact op_expected_spec. Qed.

(* --- re-entrant dispatch: a handler may call Serve on the same or another ServeMux before it
   returns ([acts]: handler h given topic trig serves t' on instance j; nesting depth bounded by
   [fuel]).  Serve is read-only on the mux, so the nested call is plain sequencing at that point;
   the event of a Serve is the flattened invocation order with nesting depths. --- *)

(* nested version of C14_mux_ops_serve: for any history and any handler behaviour, the trace of a
   Serve at position k satisfies the state-free spec [nspec] (each selected handler in order, each
   followed by what it re-dispatches), and the outer call's OWN invocations (depth 0) are exactly
   the handlers registered before k on that ServeMux which select the OUTER topic, in order *)
Theorem C14_mux_nested_serve : forall acts fuel ops k i t, nth_error ops k = Some (OpServe i t) ->
  exists tr, nth_error (nmuxes_run acts fuel muxes_empty ops) k = Some (NvServe tr) /\
             nspec acts (fun j => regs_on j (firstn k ops)) fuel 0 i t tr /\
             select_rel t (regs_on i (firstn k ops)) (at_depth 0 tr).
Proof. exact nmuxes_serve_outer. Qed.

(* at every depth: the invocations of a (nested) call itself are those selected for ITS topic *)
Theorem C14_nested_outer : forall acts R fuel d i t tr,
  nspec acts R fuel d i t tr -> select_rel t (R i) (at_depth d tr).
Proof. exact nspec_outer. Qed.

Theorem C14_mux_nested : forall acts fuel ops k, (k < length ops)%nat ->
  exists e, nth_error (nmuxes_run acts fuel muxes_empty ops) k = Some e /\ nop_spec acts fuel ops k e.
Proof. exact nmuxes_run_spec. Qed.

Theorem C14_mux_nested_unique : forall acts fuel ops k e1 e2,
  nop_spec acts fuel ops k e1 -> nop_spec acts fuel ops k e2 -> e1 = e2.
Proof. exact nop_spec_functional. Qed.

(* the predicate evaluated on observed re-entrant histories (CheckC14.nest_prop_ok) decides it *)
Theorem C14_mux_nested_decided : forall acts fuel ops k e,
  nserve_expected acts fuel ops k = Some e <-> nop_spec acts fuel ops k e.
Proof. exact nserve_expected_spec. Qed.

(* --- handlers that call Handle and Serve while being served ([progs]: handler h, given its
   trigger topic, runs a list of steps HsHandle j f h' / HsServe j t').  servemux.go:48 ranges over
   the slice as it was when Serve started, so: a handler registered during a Serve is NOT invoked
   by that Serve (even if its filter matches the message being served); it is invoked by every
   Serve that starts later, including a nested one later in the same outer call.  [rspec] says this
   over raw registration lists: the handlers of a call are selected once, from the registrations
   R present when it starts; R' are the registrations when it returns. --- *)

(* the model (compared with the code on every run) satisfies the spec for every history *)
Theorem C14_mux_registering : forall progs fuel ops,
  rhist progs fuel (fun _ => []) ops (rmuxes_run progs fuel muxes_empty ops).
Proof. exact rmuxes_run_hist_empty. Qed.

(* the property's clause for such a Serve: its own invocations are exactly the handlers selected for
   ITS topic among the registrations present WHEN IT STARTED, in registration order *)
Theorem C14_registering_outer : forall progs fuel R d i t tr R',
  rspec progs fuel R d i t tr R' -> select_rel t (R i) (invs_at d tr).
Proof. exact rspec_outer. Qed.

(* the spec determines every event, so "observed history = model output" is the spec evaluated *)
Theorem C14_mux_registering_decided : forall progs fuel ops evs,
  rhist progs fuel (fun _ => []) ops evs <-> evs = rmuxes_run progs fuel muxes_empty ops.
Proof. exact rhist_decided. Qed.

(* --- '$' ---
   The property ranges over topic names that do not start with '$'.  [valid_filter], [matches] and
   the model have no case for '$' at all: exchanging '$' and 'a' everywhere in filter and topic
   changes neither acceptance nor the match result.  Hence a level beginning with '$' at any
   position is matched by '+', by a trailing '#', and by the same literal level, exactly like a
   level beginning with 'a'.  The theorems above are stated for ALL topic strings; on topics that
   do start with '$' (outside the property) they describe what filter.go does: it applies no 4.7.2
   exclusion, so e.g. "#" matches "$SYS/x" (C14_dollar_first_is_not_special). *)
Theorem C14_dollar_ordinary : forall s topic,
  match new_topic_filter s, new_topic_filter (map dollar_a s) with
  | Some tf, Some tf' => filter_match tf' (map dollar_a topic) = filter_match tf topic
  | None, None => True
  | _, _ => False
  end.
Proof. exact dollar_ordinary. Qed.

(* the same for the declarative relation, for every renaming of characters fixing '/', '+', '#' *)
Theorem C14_matches_rename : forall rho, renaming rho -> forall f ts,
  matches (rename_levels rho f) (rename_levels rho ts) <-> matches f ts.
Proof. exact matches_rename. Qed.

(* the level standing under a '+' has no influence on the result, at whatever depth the '+' occurs:
   in particular it may start with '$' (no condition on x, y) *)
Theorem C14_plus_level_irrelevant : forall pre post tpre x y tpost, length pre = length tpre ->
  tf_match (pre ++ [PLUS] :: post) (tpre ++ x :: tpost) = tf_match (pre ++ [PLUS] :: post) (tpre ++ y :: tpost).
Proof. exact plus_level_irrelevant. Qed.

(* outside the property: a topic starting with '$' is still matched by a leading wildcard *)
Theorem C14_dollar_first_is_not_special : forall t, filter_match [[HASH]] (DOLLAR :: t) = true.
Proof. exact dollar_first_hash. Qed.

Print Assumptions C14_levels.
Print Assumptions C14_accept_iff_valid.
Print Assumptions C14_match_iff_spec.
Print Assumptions C14_mux.
Print Assumptions C14_mux_unique.
Print Assumptions C14_mux_ops_serve.
Print Assumptions C14_mux_ops_handle.
Print Assumptions C14_mux_ops.
Print Assumptions C14_mux_ops_unique.
Print Assumptions C14_mux_ops_decided.
Print Assumptions C14_dollar_ordinary.
Print Assumptions C14_matches_rename.
Print Assumptions C14_plus_level_irrelevant.
Print Assumptions C14_dollar_first_is_not_special.
Print Assumptions C14_mux_nested_serve.
Print Assumptions C14_nested_outer.
Print Assumptions C14_mux_nested.
Print Assumptions C14_mux_nested_unique.
Print Assumptions C14_mux_nested_decided.
Print Assumptions C14_mux_registering.
Print Assumptions C14_registering_outer.
Print Assumptions C14_mux_registering_decided.
