(* C14 — Topic filters validate/match per MQTT 4.7; ServeMux dispatches accordingly.
   Statements only; proofs are in Filter_proofs.v. *)
From MQ Require Import Base Filter Filter_proofs.

(* the level decomposition used by the spec is the one strings.Split computes, and it is unique *)
Theorem C14_levels : forall s ls, levels_of s ls <-> ls = split s.
Proof. intros s ls; split; [apply levels_of_unique | intros ->; apply split_levels_of]. Qed.

(* a filter is accepted exactly when it is a valid MQTT 3.1.1 topic filter *)
Theorem C14_accept_iff_valid : forall s, (exists tf, new_topic_filter s = Some tf) <-> valid_filter s.
Proof. exact accept_iff_valid. Qed.

(* an accepted filter matches a topic exactly when the level-wise rules of 4.7 say so *)
Theorem C14_match_iff_spec : forall s tf topic, new_topic_filter s = Some tf ->
  (filter_match tf topic = true <-> filter_matches_topic s topic).
Proof. exact filter_match_iff_spec. Qed.

(* ServeMux invokes exactly the registered handlers whose filter matches, in registration order *)
Theorem C14_mux : forall regs topic, select_rel topic regs (mux_serve (mux_of regs) topic).
Proof. exact mux_dispatch. Qed.

Theorem C14_mux_unique : forall topic regs h1 h2,
  select_rel topic regs h1 -> select_rel topic regs h2 -> h1 = h2.
Proof. exact select_rel_functional. Qed.

Print Assumptions C14_levels.
Print Assumptions C14_accept_iff_valid.
Print Assumptions C14_match_iff_spec.
Print Assumptions C14_mux.
Print Assumptions C14_mux_unique.
