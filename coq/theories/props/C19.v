(* C19 — Returned errors keep their cause inspectable and their retry handle.
   Statements only; model and specification in Errors.v, proofs in Errors_proofs.v.
   Model: error values are trees with pointer identities; [errors_is] / [errors_as] are Go 1.23's
   errors.Is / errors.As, [lib_is] is Error.Is (error.go:86-121) line by line, [wrap_error_impl] /
   [wrap_with_retry] are error.go:123-157, [run_request] / [run_handle] are publishImpl /
   subscribeImpl / unsubscribeImpl with their retry closures defunctionalised, [call_error] the
   other calls of BaseClient / RetryClient whose errors the property mentions. *)
From MQ Require Import Base Codec Errors Errors_proofs.
Open Scope N_scope.

(* "errors.Is finds the documented sentinel through any depth of the library's wrapping and never
   reports a sentinel that is not in the chain": for every chain built from *Error, %w wrappers,
   ConnectionError, errorWithRetry, RequestTimeoutError over a sentinel — any depth, any order —
   and every sentinel target: true exactly when the target is in the chain; and never a panic. *)
Theorem C19_is_iff_in_chain : forall e, lib_chain e = true ->
  forall s, (errors_is e (ESent s) = RTrue <-> In (ESent s) (chain e)) /\ errors_is e (ESent s) <> RPanic.
Proof. exact is_iff_in_chain. Qed.

(* the same for the exported method Error.Is called directly (also promoted to errorWithRetry) *)
Theorem C19_method_is_iff_in_chain : forall e s r, lib_chain e = true -> method_is e (ESent s) = Some r ->
  r = res_of_bool (in_chain_sent s e).
Proof. exact method_is_iff_in_chain. Qed.

(* "never reports a sentinel that is not in the chain" for ANY error value whatsoever (foreign
   wrappers, Err fields, nil, uncomparable values included) *)
Theorem C19_is_never_spurious : forall e s, errors_is e (ESent s) = RTrue -> occurs_sent s e = true.
Proof. exact is_never_spurious. Qed.

(* identity, not content: a sentinel that does not ITSELF occur in a value is not reported by
   errors.Is nor by the Is method, whatever look-alikes the value contains (a foreign errors.New with
   exactly the sentinel's text is another value: [twin_of s]); any value, any depth *)
Theorem C19_lookalike_not_reported : forall e s, occurs_sent s e = false ->
  errors_is e (ESent s) <> RTrue /\ (forall r, method_is e (ESent s) = Some r -> r <> RTrue).
Proof. exact lookalike_sentinel_not_reported. Qed.

(* and a wrapper allocated a second time with identical fields around the same inner values (equal
   content: [erase] cannot tell them apart) is not found in the chain either *)
Theorem C19_lookalike_wrapper_not_reported : forall e t k i,
  lib_chain e = true -> node_id t = Some i -> ids_below k e = true ->
  erase (retag k t) = erase t /\
  errors_is e (retag k t) = RFalse /\
  (forall r, method_is e (retag k t) = Some r -> r = RFalse).
Proof. exact lookalike_wrapper_not_reported. Qed.

(* the same for every comparable non-nil target, sentinel or not ("all targets"): errors.Is answers
   whether some value of the chain is == to the target *)
Theorem C19_is_any_target : forall e t, lib_chain e = true -> comparable t = true -> is_nil t = false ->
  errors_is e t = res_of_bool (existsb (same_value t) (chain e)).
Proof. exact is_any_target. Qed.

(* below a library wrapper the sentinel is found also through foreign wrappers that only expose an
   exported Err field (the reflective branch of Error.Is) *)
Theorem C19_is_through_err_field : forall id e s, walkable e = true ->
  errors_is (ELib id e) (ESent s) = res_of_bool (occurs_sent s e).
Proof. exact is_through_err_field. Qed.

(* both together: %w / ConnectionError / RequestTimeoutError wrappers on top, then a library wrapper
   with library, %w and foreign Err-field wrappers below, any depth: exactly the sentinel inside *)
Theorem C19_is_ext_chain : forall e s, ext_chain e = true ->
  errors_is e (ESent s) = res_of_bool (occurs_sent s e).
Proof. exact is_ext_chain. Qed.

(* the first clause for everything that can be built from the real constructors and the real
   failing calls, nested to any depth (the language the correspondence check draws from): errors.Is
   reports exactly the one sentinel at the bottom — the cause handed in, or the documented sentinel
   of that failure (ErrClosedTransport, ErrNotConnected, ErrInvalidQoS, ...) *)
Theorem C19_built_is_iff_leaf : forall d, shaped d = true ->
  forall s, errors_is (build d) (ESent s) = res_of_bool (leaf_is s (spec_leaf d)).
Proof. exact built_is_iff_leaf. Qed.

(* "io.EOF is passed through unwrapped" (and nil), by wrapError and by wrapErrorWithRetry; every
   other error gets exactly one *Error (resp. errorWithRetry) around it *)
Theorem C19_eof_unwrapped :
  (forall id, wrap_error_impl id (ESent SEOF) = ESent SEOF) /\
  (forall id, wrap_error_impl id ENil = ENil) /\
  (forall id h, wrap_with_retry id (ESent SEOF) h = ESent SEOF) /\
  (forall id e, e <> ESent SEOF -> e <> ENil -> wrap_error_impl id e = ELib id e) /\
  (forall id e h, e <> ESent SEOF -> e <> ENil -> wrap_with_retry id e h = EWithRetry id (S id) e h).
Proof. exact eof_unwrapped. Qed.

(* only io.EOF itself: an error that merely wraps io.EOF is not collapsed to io.EOF *)
Theorem C19_eof_only_bare : forall id e, is_bare_eof (wrap_error_impl id e) = true -> e = ESent SEOF.
Proof. exact eof_only_bare. Qed.

(* "an expired response timeout of the retrying client is identifiable as RequestTimeoutError":
   through any stack of the library's wrappers errors.As finds the RequestTimeoutError and errors.Is
   the context error inside it (needs RequestTimeoutError.Unwrap, fix ec227d2) ... *)
Theorem C19_timeout_identifiable : forall fs id ce,
  errors_as AsReqTimeout (plug fs (EReqTimeout id (ESent ce))) = true /\
  errors_is (plug fs (EReqTimeout id (ESent ce))) (ESent ce) = RTrue.
Proof. exact timeout_identifiable. Qed.

(* ... and on each path of RetryClient on which a ResponseTimeout expires (Ping: returned error;
   Publish QoS1/2, Subscribe, Unsubscribe: the error given to OnError, which keeps its retry handle) *)
Theorem C19_timeout_calls : forall id k, call_ok (CkRetryTimeout k) = true ->
  let e := call_error id (CkRetryTimeout k) ENil in
  errors_as AsReqTimeout e = true /\ errors_is e (ESent SDeadlineExceeded) = RTrue /\
  (retryable_kind k = true -> implements_retry e = true).
Proof. exact timeout_calls. Qed.

(* "identifiable" in both directions: for everything built from the real constructors and the real
   calls (any nesting), errors.As finds a RequestTimeoutError exactly when an expired response timeout
   is in the chain - a connection that closes while the request runs under RetryClient's request
   context (whose Err() is non-nil all the time) is NOT a timeout *)
Theorem C19_rt_iff_expired : forall d, shaped d = true -> errors_as AsReqTimeout (build d) = spec_has_rt d.
Proof. exact rt_iff_expired. Qed.

Theorem C19_closed_under_request_context : forall id k p2, call_ok (CkRetryClosed k p2) = true ->
  let e := call_error id (CkRetryClosed k p2) ENil in
  errors_is e (ESent SClosedTransport) = RTrue /\ errors_as AsReqTimeout e = false /\
  implements_retry e = true /\ error_panics e = false.
Proof. exact closed_under_request_context. Qed.

(* "inspectable" includes the text: Error() of a chain of library wrappers over a sentinel never panics *)
Theorem C19_error_text_total : forall e, lib_chain e = true -> error_panics e = false.
Proof. exact error_text_total. Qed.

(* ... and on the RETRANSMISSION path (RetryClient.Retry runs the closure queued by queueRetry under
   requestContext): for every handle the library produces and every number of consecutive timed-out
   retransmissions, the error handed to OnError is identifiable as RequestTimeoutError, shows
   context.DeadlineExceeded and still carries a retry handle *)
Theorem C19_timeout_retx_rounds : forall n eid ceid h, handle_valid h = true ->
  let e := retx_rounds eid ceid h n in
  errors_as AsReqTimeout e = true /\ errors_is e (ESent SDeadlineExceeded) = RTrue /\ implements_retry e = true.
Proof. exact timeout_retx_rounds. Qed.

(* the scenarios run on the real RetryClient: QoS 1, QoS 2 (either phase), Subscribe, Unsubscribe
   interrupted once by the peer closing, then one or two timed-out retransmissions *)
Theorem C19_timeout_retx_calls : forall id k p2 n, call_ok (CkRetryRetx k p2 n) = true ->
  let e := call_error id (CkRetryRetx k p2 n) ENil in
  errors_as AsReqTimeout e = true /\ errors_is e (ESent SDeadlineExceeded) = RTrue /\ implements_retry e = true.
Proof. exact timeout_retx_calls. Qed.

(* "a cancelled caller context's error": Publish (QoS 1, QoS 2 both phases), Subscribe, Unsubscribe,
   Ping, Connect of BaseClient, RetryClient.Ping with or without ResponseTimeout, KeepAlive, and
   ReconnectClient.Connect given up before a first connection (after any history of failed attempts,
   whose errors only go into the text), ended by their context, return an error in which errors.Is
   finds ctx.Err() - and, by C19_built_is_iff_leaf, no other sentinel *)
Theorem C19_ctx_error_found : forall id ck ce, ctx_call ck = true ->
  errors_is (call_error id ck (ESent ce)) (ESent ce) = RTrue.
Proof. exact ctx_error_found. Qed.

(* "An interrupted QoS>=1 publish, subscribe or unsubscribe returns an error implementing
   ErrorWithRetry": whichever step fails (write, connection closed while waiting, context done
   while waiting; QoS 2: both phases) with a cause that is not io.EOF itself, the result is an
   errorWithRetry around exactly that cause *)
Theorem C19_retry_keeps_cause : forall eid c nid r f cause,
  req_ok r = true -> step_applies r f = true -> cl_connected c = true ->
  cause <> ENil -> cause <> ESent SEOF ->
  exists h, snd (run_request eid c nid r (script_of f cause)) = Ret (EWithRetry eid (S eid) (step_cause f cause) h).
Proof. exact retry_keeps_cause. Qed.

(* "whose Retry re-issues that same request on the client it is given": for every request, every
   number of retries, each on any connected client and failing at any step (or not): the observable
   behaviour of the real closures IS the retransmission protocol [spec_attempts] ... *)
Theorem C19_retry_refines_protocol : forall eid r ats,
  req_ok r = true -> forallb attempt_ok ats = true ->
  map obs_of (run_attempts eid r ats) = spec_attempts r ats.
Proof. exact retry_refines_protocol. Qed.

(* ... which says, attempt by attempt: every event is on the client given to that attempt, the
   waiter of each acknowledgement is registered on it before the write, every packet written is
   that same request (PUBLISH with the same fields and identifier, DUP=0 first and DUP=1 later;
   PUBREL with that identifier and nothing else once PUBREC was received; SUBSCRIBE with the same
   subscriptions; UNSUBSCRIBE with the same topics), every failure again carries a handle, and the
   retries stop only when the request completed. Hypothesis: no Write error / ctx.Err() is io.EOF
   itself (see C19_eof_loses_handle). *)
Theorem C19_retry_handle : forall eid r ats,
  req_ok r = true -> forallb attempt_ok ats = true -> forallb attempt_no_eof ats = true ->
  let obs := map obs_of (run_attempts eid r ats) in
  follows r (publish_id r ats) true false ats obs = true /\ runs_to_completion ats obs = true.
Proof. exact retry_handle. Qed.

(* the two clauses of the property contradict each other when Write (or ctx.Err()) returns io.EOF
   itself: it is passed through unwrapped, so the interrupted request has no retry handle *)
Theorem C19_eof_loses_handle : forall eid c nid r f,
  req_ok r = true -> step_applies r f = true -> cl_connected c = true ->
  match f with FClosed1 | FClosed2 => False | _ => True end ->
  snd (run_request eid c nid r (script_of f (ESent SEOF))) = Ret (ESent SEOF).
Proof. exact eof_loses_handle. Qed.

Print Assumptions C19_is_iff_in_chain.
Print Assumptions C19_method_is_iff_in_chain.
Print Assumptions C19_is_never_spurious.
Print Assumptions C19_lookalike_not_reported.
Print Assumptions C19_lookalike_wrapper_not_reported.
Print Assumptions C19_is_any_target.
Print Assumptions C19_is_through_err_field.
Print Assumptions C19_is_ext_chain.
Print Assumptions C19_built_is_iff_leaf.
Print Assumptions C19_eof_unwrapped.
Print Assumptions C19_eof_only_bare.
Print Assumptions C19_timeout_identifiable.
Print Assumptions C19_timeout_calls.
Print Assumptions C19_rt_iff_expired.
Print Assumptions C19_closed_under_request_context.
Print Assumptions C19_error_text_total.
Print Assumptions C19_timeout_retx_rounds.
Print Assumptions C19_timeout_retx_calls.
Print Assumptions C19_ctx_error_found.
Print Assumptions C19_retry_keeps_cause.
Print Assumptions C19_retry_refines_protocol.
Print Assumptions C19_retry_handle.
Print Assumptions C19_eof_loses_handle.
