(* C13 — Keep-alive detects a silent peer and only a silent peer.
   Statements only; proofs in KeepAlive_proofs.v.  The model [keepalive I T s] is the loop of
   keepalive.go:34-60 run against a script [s] with one outcome per ping (answered after d /
   never answered / failing at once / parent context ended before / during the ping); I is the
   interval, T the per-ping timeout (numbers; I = 0 and T = 0 stand for non-positive durations).
   [ka_env] is the same loop for arbitrary Ping behaviours and cancellation points.
   [ka_react]/[loop_react] are reconnclient.go:120-161. *)
From MQ Require Import Base KeepAlive KeepAlive_proofs.
Open Scope N_scope.

(* "keeps running as long as each response arrives within the timeout": for EVERY number of
   answered pings (any response delays ds) the loop has not returned, it has sent exactly one
   ping per answer, and what follows is decided as if the run started there *)
Theorem C13_runs_while_answered : forall I T ds s, 0 < I ->
  ko_result (keepalive I T (answered ds)) = KA_running /\
  pings (keepalive I T (answered ds)) = length ds /\
  ko_result (keepalive I T (answered ds ++ s)) = ko_result (keepalive I T s) /\
  pings (keepalive I T (answered ds ++ s)) = (length ds + pings (keepalive I T s))%nat.
Proof.
  intros I T ds s HI. destruct (never_returns_while_answered I T ds HI) as (H1 & H2).
  destruct (runs_while_answered I T ds s HI) as (H3 & H4). repeat split; assumption.
Qed.

(* "sends a ping every interval while the connection is healthy": while responses arrive within
   one interval, ping number j goes out exactly at j*I — including the ping after the last
   answer, whatever happens to it *)
Theorem C13_ping_per_tick : forall I T ds o s, 0 < I -> Forall (fun d => d <= I) ds ->
  ko_starts (keepalive I T (answered ds)) = tick_times I 1 (length ds) /\
  firstn (S (length ds)) (ko_starts (keepalive I T (answered ds ++ o :: s))) = tick_times I 1 (S (length ds)).
Proof. exact ping_per_tick. Qed.

(* the period does not depend on the round-trip time: while each response arrives within one
   interval (and hence within the timeout), ping j is sent at j*I whatever the response delays,
   so any two pings are an exact multiple of I apart — the ticker is anchored, not re-armed at
   the arrival of the response *)
Theorem C13_ping_period_independent_of_delay : forall I T ds, 0 < I -> Forall (fun d => d <= I) ds ->
  (forall j, (j < length ds)%nat ->
     nth_error (ko_starts (keepalive I T (answered ds))) j = Some (N.of_nat (S j) * I)) /\
  (forall j k tj tk, (j <= k)%nat ->
     nth_error (ko_starts (keepalive I T (answered ds))) j = Some tj ->
     nth_error (ko_starts (keepalive I T (answered ds))) k = Some tk ->
     tk - tj = N.of_nat (k - j) * I).
Proof. exact ping_period_independent_of_delay. Qed.

(* ... and in every run, whatever the pings do and whenever the context ends: ping number j is
   never sent before j*I, and each ping follows the return of the previous one by at most I *)
Theorem C13_ping_spacing : forall I T s, 0 < I ->
  (forall j t, nth_error (ko_starts (ka_env I T s)) j = Some t -> N.of_nat (S j) * I <= t) /\
  gaps_ok I (ko_pings (ka_env I T s)).
Proof.
  intros I T s HI. split.
  - intros j t. apply no_ping_before_its_tick. exact HI.
  - apply next_ping_within_interval. exact HI.
Qed.

(* "If a response does not arrive within the timeout it reports ErrPingTimeout": after any
   number of answered pings, one more ping, not earlier than (n+1)*I + T *)
Theorem C13_timeout : forall I T ds s, 0 < I ->
  ko_result (keepalive I T (answered ds ++ Never :: s)) = KA_returned EPingTimeout /\
  pings (keepalive I T (answered ds ++ Never :: s)) = S (length ds) /\
  N.of_nat (S (length ds)) * I + T <= ko_end (keepalive I T (answered ds ++ Never :: s)).
Proof.
  intros I T ds s HI. destruct (timeout_reported I T ds s HI) as (H1 & H2).
  repeat split; [exact H1 | exact H2 | apply timeout_elapsed; exact HI].
Qed.

(* "... and only a silent peer": ErrPingTimeout is reported if and only if the first ping that
   is not answered is one that is never answered *)
Theorem C13_timeout_iff_silent : forall I T s, 0 < I -> 0 < T ->
  (ko_result (keepalive I T s) = KA_returned EPingTimeout <-> exists ds r, s = answered ds ++ Never :: r).
Proof. exact timeout_iff_silent. Qed.

(* the same for arbitrary Ping behaviours: ErrPingTimeout implies that the parent context was
   alive and the last ping had been outstanding for at least the timeout *)
Theorem C13_timeout_only_if_silent : forall I T s, 0 < I ->
  ko_result (ka_env I T s) = KA_returned EPingTimeout ->
  ko_parent (ka_env I T s) = None /\ exists pre t d, ko_pings (ka_env I T s) = pre ++ [(t, d)] /\ T <= d.
Proof. exact timeout_only_if_silent. Qed.

(* "if its context is cancelled it stops with the context's error instead of declaring a
   timeout": cancelled before or during a ping, after any number of answered pings *)
Theorem C13_cancel_wins : forall I T ds k s o, 0 < I ->
  o = ParentCancelledBefore k \/ o = ParentCancelledDuring k ->
  ko_result (keepalive I T (answered ds ++ o :: s)) = KA_returned (ECtx k) /\
  ko_result (keepalive I T (answered ds ++ o :: s)) <> KA_returned EPingTimeout /\
  pings (keepalive I T (answered ds ++ o :: s)) = S (length ds).
Proof. exact cancel_wins. Qed.

(* for arbitrary Ping behaviours: once the parent context has ended the loop can only return
   that context's error (it keeps running only while its pings still return nil) *)
Theorem C13_cancelled_never_timeout : forall I T s k, 0 < I ->
  ko_parent (ka_env I T s) = Some k ->
  ko_result (ka_env I T s) = KA_running \/ ko_result (ka_env I T s) = KA_returned (ECtx k).
Proof. exact cancelled_never_timeout. Qed.

(* a ping that fails at once is neither a timeout nor a cancellation: its error is returned *)
Theorem C13_ping_error_passthrough : forall I T ds e s, 0 < I -> 0 < T ->
  ko_result (keepalive I T (answered ds ++ FailsNow e :: s)) = KA_returned (EOwn e) /\
  pings (keepalive I T (answered ds ++ FailsNow e :: s)) = S (length ds).
Proof. exact ping_error_passthrough. Qed.

(* all five outcomes at once: the loop computes "the first outcome that is not an answer
   decides", result and number of pings; and the general loop computes the one-scan spec *)
Theorem C13_meets_spec : forall I T s, 0 < I -> 0 < T ->
  (ko_result (keepalive I T s), pings (keepalive I T s)) = spec_result s.
Proof. exact keepalive_meets_spec. Qed.

Theorem C13_env_meets_spec : forall I T s,
  (ko_result (ka_env I T s), pings (ka_env I T s)) = spec_env I T s.
Proof. exact ka_env_meets_spec. Qed.

(* "upon which the reconnecting client closes that connection and establishes a new one": a
   peer going silent after any number of answered pings, on a connection [me] without a stored
   error: ErrPingTimeout is stored on THAT client and is what Err() reports, its transport is
   closed, no other client is touched, the reconnect loop dials again *)
Theorem C13_reconnects_on_timeout : forall I T ds s me st, 0 < I -> fresh st me ->
  exists o, rc_keepalive I T (answered ds ++ Never :: s) = Some o /\
  let st' := ka_react me o false false st in
  cs_err (st' me) = Some EPingTimeout /\ cs_closed (st' me) = true /\
  (forall j, j <> me -> st' j = st j) /\ loop_react me st' = LRedial.
Proof. exact reconnects_on_timeout. Qed.

(* "closes that connection", whatever kind of silence: the reaction consists of SetErrorOnce and
   Close only, it writes no packet, so it completes (with the state of C13_reconnects_on_timeout)
   whether or not the peer still takes bytes *)
Theorem C13_timeout_reaction_independent_of_peer : forall accepts me o late disc st,
  run_ops accepts me (react_ops o late disc) st = Some (ka_react me o late disc st) /\
  existsb op_is_write (react_ops o late disc) = false.
Proof. exact reaction_independent_of_peer. Qed.

(* a keep-alive whose context was cancelled (the connection ended for another reason) stores
   nothing and closes nothing, on any client; nor does a result that arrives after the loop
   cancelled it or while a Disconnect is in progress *)
Theorem C13_cancelled_stores_nothing : forall I T ds k o s me late disc st, 0 < I ->
  o = ParentCancelledBefore k \/ o = ParentCancelledDuring k ->
  exists out, rc_keepalive I T (answered ds ++ o :: s) = Some out /\ ka_react me out late disc st = st.
Proof. exact cancelled_keepalive_stores_nothing. Qed.

Theorem C13_late_cancel_ignored : forall me o late disc st, late || disc = true -> ka_react me o late disc st = st.
Proof. exact late_cancel_ignored. Qed.

(* "a peer going silent at any time", also after the caller cancelled the context it passed to
   Connect: the keep-alive context of every connection, the first included, descends from the
   loop's context AFTER it was replaced by Background (reconnclient.go:108-112 before :120), so
   ending the caller's context at any point changes nothing for the keep-alive *)
Theorem C13_caller_cancel_after_connect_irrelevant : forall I T cc peer, 0 < I ->
  rc_conn_keepalive I T cc peer = rc_keepalive I T peer.
Proof. exact caller_cancel_after_connect_irrelevant. Qed.

(* "as long as EACH response arrives": a Ping completes only on a PINGRESP that arrived after
   its own PINGREQ (fresh one-slot channel per Ping, non-blocking send by the reader); surplus
   PINGRESPs never answer a later ping, so a peer that answered n pings, however often, and then
   stays silent is reported after exactly n+1 PINGREQs *)
Theorem C13_stale_pingresp_inert : forall I T pre u post, 0 < I ->
  Forall (fun x => peer_answers x = true) pre ->
  wire_outcomes (pre ++ (u, O, O) :: post) = answered (repeat 0 (length pre)) ++ Never :: wire_outcomes post /\
  ko_result (keepalive I T (wire_outcomes (pre ++ (u, O, O) :: post))) = KA_returned EPingTimeout /\
  pings (keepalive I T (wire_outcomes (pre ++ (u, O, O) :: post))) = S (length pre).
Proof. exact stale_pingresp_inert. Qed.

(* "keeps running as long as each response arrives within the timeout", however early: the
   channel is installed BEFORE the PINGREQ is written (pingreq.go:31-36), so a PINGRESP
   dispatched at any time after the write started, before the Ping reaches its select included,
   answers the ping; the loop runs through any number of pings answered with zero delay *)
Theorem C13_zero_delay_pingresp_answers : forall I T uzrs, 0 < I ->
  (forall st u z r, sl_wait st = false -> (0 < z + r)%nat -> slot_run st (ping_events (u, z, r)) = [SAnswered]) /\
  (Forall (fun x => peer_answers x = true) uzrs ->
   ko_result (keepalive I T (wire_outcomes uzrs)) = KA_running /\
   pings (keepalive I T (wire_outcomes uzrs)) = length uzrs).
Proof. exact zero_delay_pingresp_answers. Qed.

(* for the reconnecting client: "a ping every INTERVAL", "each response within the TIMEOUT" —
   KeepAlive gets (PingInterval, Timeout) in this order (reconnclient.go:124-128): its keep-alive
   is [keepalive PingInterval Timeout]; a peer answering every ping in less than Timeout, however
   much more than PingInterval, is never dropped, ping j is not sent before j*PingInterval and
   the first exactly then; a peer needing Timeout or more is reported at that ping *)
Theorem C13_reconnect_interval_then_timeout : forall o ds, 0 < ro_ping_interval o ->
  let I := ro_ping_interval o in let T := ro_timeout o in
  rc_keepalive_peer o (map Some ds) = Some (keepalive I T (map (peer_outcome T) (map Some ds))) /\
  (Forall (fun d => d < T) ds ->
     forall out, rc_keepalive_peer o (map Some ds) = Some out ->
     ko_result out = KA_running /\ pings out = length ds /\
     (forall j t, nth_error (ko_starts out) j = Some t -> N.of_nat (S j) * I <= t) /\
     (ds <> [] -> nth_error (ko_starts out) 0 = Some I)) /\
  (forall pre d post, Forall (fun d => d < T) pre -> T <= d ->
     forall out, rc_keepalive_peer o (map Some (pre ++ d :: post)) = Some out ->
     ko_result out = KA_returned EPingTimeout /\ pings out = S (length pre)).
Proof. exact reconnect_interval_then_timeout. Qed.

(* "interval/timeout settings": the settings in force follow the documented rule — PingInterval
   defaults to the CONNECT keep-alive, Timeout defaults to PingInterval (0 = option not given) *)
Theorem C13_option_defaults : forall p t ka,
  ro_ping_interval (rc_effective (mk_ro p t) ka) = (if p =? 0 then ka else p) /\
  ro_timeout (rc_effective (mk_ro p t) ka) = (if t =? 0 then (if p =? 0 then ka else p) else t) /\
  (0 < p -> t = 0 -> rc_effective (mk_ro p t) ka = mk_ro p p).
Proof. exact rc_effective_rule. Qed.

(* so with only a ping interval p configured (keep-alive absent or much longer) a peer answering
   within p is kept for any number of pings and a silent one is reported with timeout p: at 2p *)
Theorem C13_timeout_defaults_to_interval : forall p ka ds, 0 < p ->
  let o := rc_effective (mk_ro p 0) ka in
  (Forall (fun d => d < p) ds -> forall out, rc_keepalive_peer o (map Some ds) = Some out ->
     ko_result out = KA_running /\ pings out = length ds) /\
  (forall out, rc_keepalive_peer o [None] = Some out ->
     ko_result out = KA_returned EPingTimeout /\ ko_end out = p + p).
Proof. exact reconnect_timeout_defaults_to_interval. Qed.

(* "if a RESPONSE does not arrive": only a PINGRESP completes a ping.  Whatever other packets the
   reader handles meanwhile (PUBLISH of any QoS, PUBREL, acks), the ping waiter sees the history
   without them; a peer that is mute to pings but otherwise talking is reported like a silent one *)
Theorem C13_only_pingresp_completes_ping : forall I T pre u o post, 0 < I ->
  (forall st es, slot_run st es = slot_run st (filter (fun e => negb (is_other e)) es)) /\
  (Forall (fun x => peer_answers (fst x) = true) pre ->
   wire_outcomes_talk (pre ++ (u, O, O, o) :: post) =
     answered (repeat 0 (length pre)) ++ Never :: wire_outcomes_talk post /\
   ko_result (keepalive I T (wire_outcomes_talk (pre ++ (u, O, O, o) :: post))) = KA_returned EPingTimeout /\
   pings (keepalive I T (wire_outcomes_talk (pre ++ (u, O, O, o) :: post))) = S (length pre)).
Proof.
  intros I T pre u o post HI. split.
  - intros st es. apply other_packets_ignored.
  - apply only_pingresp_completes_ping. exact HI.
Qed.

(* "within the timeout": the keep-alive pings through the BaseClient, so its deadline is Timeout
   alone; RetryClient.ResponseTimeout (meant for PUBACK/SUBACK) plays no part *)
Theorem C13_keepalive_ignores_response_timeout : forall o rt delays,
  rc_keepalive_cfg o rt delays = rc_keepalive_peer o delays.
Proof. exact keepalive_ignores_response_timeout. Qed.

(* time.NewTicker's panic on a non-positive interval is unreachable from the reconnecting client *)
Theorem C13_no_panic_from_reconnect : forall I T s o, rc_keepalive I T s = Some o -> ko_result o <> KA_panic.
Proof. exact rc_keepalive_no_panic. Qed.

(* every time the latency-free model computes is a lower bound for an execution with arbitrary
   non-negative latencies (what makes the harness's time comparisons sound) *)
Theorem C13_model_times_are_lower_bounds : forall I T s, 0 < I ->
  let a := ka_env I T (map fst s) in
  let b := ka_loop_lat I T 0 1 None s in
  ko_result a = ko_result b /\ Forall2 N.le (ko_starts a) (ko_starts b) /\ ko_end a <= ko_end b.
Proof. exact model_times_are_lower_bounds. Qed.

Print Assumptions C13_runs_while_answered.
Print Assumptions C13_ping_per_tick.
Print Assumptions C13_ping_spacing.
Print Assumptions C13_timeout.
Print Assumptions C13_timeout_iff_silent.
Print Assumptions C13_timeout_only_if_silent.
Print Assumptions C13_cancel_wins.
Print Assumptions C13_cancelled_never_timeout.
Print Assumptions C13_ping_error_passthrough.
Print Assumptions C13_meets_spec.
Print Assumptions C13_env_meets_spec.
Print Assumptions C13_reconnects_on_timeout.
Print Assumptions C13_cancelled_stores_nothing.
Print Assumptions C13_late_cancel_ignored.
Print Assumptions C13_no_panic_from_reconnect.
Print Assumptions C13_model_times_are_lower_bounds.
Print Assumptions C13_caller_cancel_after_connect_irrelevant.
Print Assumptions C13_stale_pingresp_inert.
Print Assumptions C13_zero_delay_pingresp_answers.
Print Assumptions C13_reconnect_interval_then_timeout.
Print Assumptions C13_ping_period_independent_of_delay.
Print Assumptions C13_option_defaults.
Print Assumptions C13_timeout_defaults_to_interval.
Print Assumptions C13_timeout_reaction_independent_of_peer.
Print Assumptions C13_only_pingresp_completes_ping.
Print Assumptions C13_keepalive_ignores_response_timeout.
