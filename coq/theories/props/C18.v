(* C18 — With a response timeout, a silent broker cannot stall the client.
   Statements: RetryProps.v (about the retry / reconnect system model RetrySys.step).
   Proofs: RetryInv_Acct.v, RetryInv_AcctSys.v. *)
From MQ Require Import Base RetryCore RetrySys CheckRetry RetryProps RetryInv_Acct RetryInv_AcctSys.

(* "It never waits indefinitely on a connection whose broker stays silent, for first transmissions
   and retransmissions alike": with ResponseTimeout configured (c_timeout cfg = true) no label
   sequence, whatever the fault plan (including FSilentReq / FSilentAck on any packet of any
   connection, first transmission or retry), reaches a state in which the task goroutine waits for
   ever (w_hung). *)
Theorem C18_no_hang : C18_no_hang_stmt.
Proof. exact RetryInv_AcctSys.no_hang. Qed.
Print Assumptions C18_no_hang.

(* "a request whose acknowledgement does not arrive within that time is abandoned on that connection:
   the client reports a RequestTimeoutError through OnError, closes the connection so that a new one
   is established, and keeps the request for retransmission": in any state, a task step in which a
   RequestTimeoutError is reported (the number of ETimeout entries of OnError grows) ends with the
   current connection closed (cur_alive = false: the reconnect loop's LDetectEnd is enabled), the
   task goroutine waiting for the next connection (TWaiting) and the retry queue non-empty (the
   request's retry handle was queued; that it is *that* request and that it is acknowledged later is
   C01). *)
Theorem C18_timeout_reaction : C18_timeout_reaction_stmt.
Proof. exact RetryInv_AcctSys.timeout_reaction. Qed.
Print Assumptions C18_timeout_reaction.
