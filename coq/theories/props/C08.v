(* C08 — Broker-side subscriptions converge to the app's Subscribe/Unsubscribe calls.
   Statements in RetryProps.v (about the labelled transition system RetrySys.step: user submits ||
   task goroutine || reconnect loop || faults, every label sequence); proofs in
   RetryInv_SubsMap.v (tables as finite maps, per-topic replay algebra), RetryInv_SubsExec.v (what one
   task does to the invariant), RetryInv_Subs.v (system invariant I-subs, convergence),
   RetryInv_SubsResub.v (re-subscription packets), RetryInv_SubsResubContent.v (content of a
   Resubscribe, client view = net effect of executed calls), RetryInv_SubsEx.v (examples, counterexample).

   Hypotheses: [wf_labels] (ghost uids positive, increasing in submission order: only used by the last
   theorem, where uid 0 marks a re-subscription); [closing_only fp]: every transport fault closes the
   connection (write error / packet lost / acknowledgement lost, each with the connection); without
   it convergence is FALSE of the model and of the Go code (a timed-out SUBSCRIBE is overtaken inside
   one Retry pass): [RetryInv_SubsEx.C08_converges_silent_refuted]. [quiescent s]: retry queue and task
   queue empty, reconnect loop in its wait on a live current connection.
   Non-vacuity: [RetryInv_SubsEx.C08_example] (3 calls, lost SUBACK, dial failure, refused CONNECT,
   session lost, re-subscription, quiescent end) and [C08_resub_condition_example]. *)
From MQ Require Import Base RetryCore RetrySys CheckRetry RetryProps.
From MQ Require RetryInv_Subs RetryInv_SubsResub RetryInv_SubsResubContent RetryInv_SubsEx.

(* "Once the retrying / reconnecting client is idle on a stable connection, the set of topic filters
   subscribed at the broker, with their requested QoS, equals the net effect of the application's
   Subscribe and Unsubscribe calls in call order, however many reconnects happened." *)
Theorem C08_converges : C08_converges_stmt.
Proof. exact RetryInv_Subs.C08_converges. Qed.
Print Assumptions C08_converges.

(* "... the client re-subscribes what is currently subscribed and nothing that was unsubscribed":
   what a later Resubscribe sends is subEstablished, and at quiescence that equals the net effect
   of the calls as well. *)
Theorem C08_established_view : C08_established_view_stmt.
Proof. exact RetryInv_Subs.C08_established_view. Qed.
Print Assumptions C08_established_view.

(* "When the broker did not keep the session (or AlwaysResubscribe is set) the client re-subscribes
   ...; when the session was kept it does not re-subscribe, and it never re-subscribes on the first
   connection": the Resubscribe task is queued exactly when
   initialized && (!sessionPresent || AlwaysResubscribe). *)
Theorem C08_resub_condition : C08_resub_condition_stmt.
Proof. exact RetryInv_Subs.C08_resub_condition. Qed.
Print Assumptions C08_resub_condition.

(* "... and nothing that was [never subscribed] ..., and it never re-subscribes on the first
   connection": every re-subscription packet (ghost uid 0) on the wire names only filters that some
   Subscribe call named, and is written only after the reconnect loop completed a first connection. *)
Theorem C08_resub_only_subscribed : C08_resub_only_subscribed_stmt.
Proof. exact RetryInv_SubsResub.C08_resub_only_subscribed. Qed.
Print Assumptions C08_resub_only_subscribed.

(* "... the client re-subscribes what is currently subscribed and nothing that was unsubscribed", at
   full strength, in two parts (statements defined in RetryInv_SubsResubContent.v):
   (1) one Resubscribe task issues, in order, exactly one single-filter re-subscription (uid 0) per
       entry of subEstablished — a prefix run directly (one SUBSCRIBE on the wire each), the rest deferred
       IN FRONT of the old retry queue, which is kept unchanged — and nothing else;
   (2) in every reachable not-hung state, for any fault plan, subEstablished (with the re-subscriptions
       still deferred) is the net effect, in call order, of the executed Subscribe/Unsubscribe calls
       (submitted calls minus those still waiting in the retry queue / task queue).
   Hence a Resubscribe names exactly the filters the calls attempted so far leave subscribed, with the
   latest requested QoS, and none that a later executed Unsubscribe removed
   ([RetryInv_SubsEx.C08_resub_names_current_example], [C08_executed_example], [C08_resub_content_example]). *)
Theorem C08_resub_content : RetryInv_SubsResubContent.C08_resub_content_stmt.
Proof. exact RetryInv_SubsResubContent.C08_resub_content. Qed.
Print Assumptions C08_resub_content.

Theorem C08_established_is_net_effect_of_executed :
  RetryInv_SubsResubContent.C08_established_is_net_effect_of_executed_stmt.
Proof. exact RetryInv_SubsResubContent.C08_established_is_net_effect_of_executed. Qed.
Print Assumptions C08_established_is_net_effect_of_executed.

(* additional: the hypothesis [closing_only] of C08_converges cannot be dropped *)
Check RetryInv_SubsEx.C08_converges_silent_refuted.
Print Assumptions RetryInv_SubsEx.C08_converges_silent_refuted.
Print Assumptions RetryInv_SubsEx.C08_example.
