(* C11 — every blocking call returns when its context is cancelled or the connection ends.
   Statements only; proofs in Calls_proofs.v. The model (Calls.v): each call is the instruction list of its
   Go function (lock, write, select over connClosed / ctx.Done() / acknowledgement), the reader goroutine is
   the serve loop followed by the serve-exit sequence of connect.go:120-131, a schedule is any list of
   labels (reader step / step of call i taking select arm a), the peer is a script. *)
From MQ Require Import Base Calls Calls_proofs.

(* "every blocking call returns promptly once its context is cancelled or the connection ends ... at
   whatever step of the exchange": the domain is finite and is the bound of this theorem — [matrix] = the 125
   cells call (Connect, Publish QoS0/1/2, Subscribe, Unsubscribe, Ping, Disconnect, RetryClient.Ping with
   ResponseTimeout) x program point (waiting for the connect lock, before the write, parked in the 1st
   select, parked in the 2nd select) x cause (cancel, deadline, Close, Disconnect, peer close, malformed
   packet) that exist, minus the 16 cells of finding F14. [cell_ok] explores ALL schedules of the cell and
   requires of every maximal one: returned; for a context cause the error chain contains that context's
   error (or the call completed without ever waiting); for a connection end the error is
   ErrClosedTransport / the write error, Done() is closed and the reader goroutine is gone. *)
Theorem C11_returns : forall c p z, In (c, p, z) matrix -> cell_ok (c, p, z) = true.
Proof. exact matrix_returns. Qed.

(* (the matrix now also has the point "parked inside Transport.Write" x {Close, peer close} and the ten retry-handle calls — Retry(ctx2, cli2) of an interrupted QoS1 publish, QoS2 publish before / after PUBREC, Subscribe, Unsubscribe, each with the first attempt's context alive or already cancelled) *)

(* the bound is the whole space: every cell that exists and is not an F14 cell is in [matrix] *)
Theorem C11_matrix_is_all : forall c p z, valid c p z = true -> is_f14 p z = false -> In (c, p, z) matrix.
Proof. exact matrix_complete. Qed.

(* the same statement with the schedule explicit: ANY list of labels, run until nothing can move *)
Theorem C11_returns_all_schedules : forall c p z sched,
  In (c, p, z) matrix -> Quiescent (run sched (cell_start (c, p, z))) ->
  ok_outcome c z (observe z (run sched (cell_start (c, p, z)))) = true.
Proof. exact matrix_returns_all_schedules. Qed.

(* "promptly": every step of every goroutine strictly decreases a measure, so any execution has at most
   [msr s] steps before nothing can move; no call is ever waited for more than that *)
Theorem C11_bounded : forall l s s', step l s = Some s' -> msr s' < msr s.
Proof. exact step_msr. Qed.

(* "a cancelled context is reported as that context's error": for ANY call program, any wrapping, with or
   without RetryClient's ResponseTimeout context in between (fix ec227d2): a call that leaves through the
   ctx.Done() arm returns an error whose chain contains the error of the context the caller passed *)
Theorem C11_ctx_error : forall tcl ccl wl rl c c' e,
  cstep tcl ccl wl rl ACtx c = Some (c', e) ->
  cx c <> CtxLive /\
  exists err, res c' = RetErr err /\ chain_contains unwraps_fixed (ctx_sentinel (cx c)) err = true.
Proof. exact ctx_arm_reports_ctx_error. Qed.

(* "returns promptly once its context is cancelled" does not depend on the reader goroutine: a call parked in a
   select whose context has ended can leave through ctx.Done() in ANY state of the rest of the system — e.g. while
   the reader is inside a message handler and takes no step (the model has no lock shared between the handler
   call and the requests: serve.go releases c.mu before calling the handler) *)
Theorem C11_ctx_wakes_while_reader_is_busy : forall s i c kc kx rs,
  nth_error (calls s) i = Some c -> active c = true -> rest c = ISelect kc kx :: rs -> cx c <> CtxLive ->
  step (LCall i ACtx) s <> None.
Proof. exact parked_ctx_enabled. Qed.

(* retry handles (ErrorWithRetry.Retry(ctx2, cli2)): every wait of the handle selects on the context passed to
   Retry — the state of the context of the first, interrupted attempt (field [ocx]) never influences whether a
   step is possible nor what it returns; with C11_ctx_error: the error is ctx2's, never the old context's *)
Theorem C11_retry_ignores_original_context : forall tcl ccl wl rl a c x,
  cstep tcl ccl wl rl a (set_ocx c x) =
  match cstep tcl ccl wl rl a c with Some (c', e) => Some (set_ocx c' x, e) | None => None end.
Proof. exact cstep_ignores_original_context. Qed.

(* ... and further wrapping by callers (any number of *Error / errorWithRetry / RequestTimeoutError layers)
   keeps it inspectable *)
Theorem C11_ctx_error_through_wrappers : forall ws t e,
  chain_contains unwraps_fixed t (fold_right Wrap e ws) = chain_contains unwraps_fixed t e.
Proof. exact chain_through_wrappers. Qed.

(* "also with several calls blocked at once": for ANY list of calls parked in a select (no bound on their
   number, any program), ANY number of stray acknowledgements (late, duplicated, unsolicited: for identifiers
   none of them waits for) still on their way, after one connection end and any schedule run until nothing
   moves, every one has returned the error of its connClosed arm, Done() is closed and the reader goroutine
   is gone *)
Theorem C11_all_wake : forall (cs : list cst) (s : sys) (sched : list label),
  Forall parked cs -> calls s = cs -> stray_only cs (inbox s) ->
  rd s <> RNotStarted -> reader_inv s -> ended s ->
  Quiescent (run sched s) ->
  Forall2 (fun c0 c => c = finish c0 (closed_err c0)) cs (calls (run sched s)) /\
  cclosed (run sched s) = true /\ rd (run sched s) = RFinished.
Proof. exact all_wake. Qed.

(* that error says the connection is gone: its chain contains ErrClosedTransport *)
Theorem C11_all_wake_error : forall c0,
  exists e, res (finish c0 (closed_err c0)) = RetErr e /\ chain_contains unwraps_fixed SClosedTransport e = true.
Proof. exact closed_err_is_closed. Qed.

(* "so nothing blocks forever": the general form — calls at ANY program point (waiting for the lock, about
   to write, parked), any context state, acknowledgements pending or not: once the connection has ended,
   a state where nothing can move has every call returned, Done() closed, the reader gone *)
Theorem C11_conn_end_all_return : forall s sched, sinv s -> Quiescent (run sched s) ->
  rd (run sched s) = RFinished /\ cclosed (run sched s) = true /\
  Forall (fun c => active c = false) (calls (run sched s)).
Proof. exact conn_end_all_return. Qed.

(* "when the connection ends Done() is closed and the client's reader goroutine exits": once serve has
   returned, four steps of the serve-exit goroutine — whatever everyone else does in between, nobody can
   hold it up — close the transport, close Done() and end the goroutine *)
Theorem C11_done_and_reader_exit : forall s sched, rd s = RExit0 -> 4 <= count_reader sched ->
  rd (run sched s) = RFinished /\ cclosed (run sched s) = true /\ tclosed (run sched s) = true.
Proof.
  intros s sched H Hc. apply exit_goroutine_runs_to_end; [|rewrite H; exact Hc].
  unfold exit_inv. rewrite H. repeat split; try reflexivity; try discriminate. intros E; contradiction E; reflexivity.
Qed.

(* the reader goroutine never waits for anybody when it hands an acknowledgement over (serve.go: every
   hand-off is "select { case ch <- ack: default: }"): whatever the next queued packet is — an acknowledgement
   whose waiter's one-slot buffer is already full, one for a call that has returned, one for an identifier
   nobody knows — it is consumed *)
Theorem C11_reader_never_blocks_on_handoff : forall s p q,
  rd s = RServing -> inbox s = p :: q -> rstep s <> None.
Proof. exact reader_never_blocks_on_handoff. Qed.

(* hence "serve returns on every connection end" also after arbitrary stray acknowledgements: once the
   connection has ended (transport closed, peer closed, malformed packet queued), whatever is still queued and
   whatever the other goroutines do in between, [rleft s] (= queued packets up to the first malformed one
   + 1 + 4) own steps of the reader suffice: transport closed, Done() closed, goroutine gone *)
Theorem C11_serve_returns_after_stray_acks : forall sched s,
  ended s -> rd s <> RNotStarted -> (rd s <> RServing -> exit_inv s) ->
  rleft s <= count_reader sched ->
  rd (run sched s) = RFinished /\ cclosed (run sched s) = true /\ tclosed (run sched s) = true.
Proof. exact reader_wait_free. Qed.

(* the matrix once more, with 2k stray acknowledgements (k duplicates for a request answered earlier — also a
   late or repeated PINGRESP —, k for identifiers never used; k = 1..4) sent before the cause, and also with
   no call blocked at all: same verdict in every cell, under all schedules *)
Theorem C11_returns_after_stray_acks : forall k c p z, In k [1; 2; 3; 4]%nat -> In (c, p, z) matrix ->
  stray_cell_ok k (c, p, z) = true.
Proof. exact matrix_returns_after_stray_acks. Qed.

(* "closed locally ... at whatever step": a call parked INSIDE Transport.Write (the peer stopped reading) —
   Disconnect, after it has set StateDisconnected, included — does not react to its context (the transport does
   not know it: stays blocked), but a local Close() ends it under every schedule: write error returned, Done()
   closed, reader gone. In the model Close closes the transport whatever the connection state. *)
Theorem C11_close_ends_stalled_write : forall c, inwrite_cancel_then_close_ok c = true.
Proof. exact close_ends_stalled_write. Qed.

(* Disconnect whose DISCONNECT write failed returns that error with the connection still up; the Close() that
   follows closes Done() and ends the reader; Close() after a successful Disconnect is a harmless no-op *)
Theorem C11_close_after_disconnect :
  dseq_all_ok 0 = true /\ dseq_all_ok 1 = true /\
  observe LocalClose (dseq_mid 0) = mkO KWrite false false false /\
  observe LocalClose (dseq_mid 1) = mkO KNil false true true.
Proof. exact close_after_disconnect. Qed.

(* finding F14 (known, not repaired): the statement is FALSE at the connect lock — a call waiting for
   muConnecting while a Connect waiting for CONNACK holds it stays blocked, its own context done,
   under every schedule ... *)
Theorem C11_connect_lock_blocks : forall c p z sched, In (c, p, z) f14_cells ->
  let s := run sched (cell_start (c, p, z)) in
  cx (call0 s) <> CtxLive /\ classify unwraps_fixed (cause_sentinel z) (call0 s) = KBlocked.
Proof. exact connect_lock_blocks. Qed.

(* ... hence, over the full matrix: *)
Theorem C11_connect_lock_refuted : exists c p z, valid c p z = true /\ cell_ok (c, p, z) = false.
Proof. exact connect_lock_refuted. Qed.

(* "Connect/Disconnect of the reconnecting client": Connect with dials failing / hanging / CONNACK withheld
   returns its context's error when that context ends; Disconnect returns in every phase (never connected,
   after a failed Connect — fix cbf3ad0 —, during the dial cycle, waiting for CONNACK, connected, in the
   back-off after a loss), and afterwards the loop goroutine is gone *)
Theorem C11_reconnect_returns : forall p z, In (p, z) rmatrix -> rok p z (rcell_run true p z) = true.
Proof. exact reconnect_returns. Qed.

(* "a cancelled context is reported as that context's error" for Connect of the reconnecting client: whatever
   dial or handshake errors earlier attempts recorded, wrapErrorf(ctx.Err(), "establishing first connection
   (dial: ..., connect: ...)") has the context's error in its chain *)
Theorem C11_reconnect_connect_ctx_error : forall rc x, x <> CtxLive ->
  chain_contains unwraps_fixed (ctx_sentinel x) (rconnect_err rc x) = true.
Proof. exact reconnect_connect_ctx_error. Qed.

(* the hand-off of the first connection's result never blocks the loop goroutine (done has capacity 1): from
   "CONNACK accepted" it reaches its supervising select in every environment, whatever the caller of Connect does *)
Theorem C11_reconnect_handoff_never_blocks : forall e, exists e', lstep LHandoff e = Some (LUp, e').
Proof. exact handoff_never_blocks. Qed.

Theorem C11_reconnect_connack_accepted_reaches_supervision : forall e, r_ack e = true -> fst (lrun 2 LConnect e) = LUp.
Proof. exact connack_accepted_reaches_supervision. Qed.

(* Connect's context ending before the dial / during it / after SetClient / waiting CONNACK / after CONNACK was
   accepted but before the hand-off / after Connect returned, followed by Disconnect, a peer close or nothing *)
Theorem C11_reconnect_connect_ctx_at_each_point : forall p f, In (p, f) cxmatrix -> cx_ok p (cx_run p f) = true.
Proof. exact connect_ctx_at_each_point. Qed.

Theorem C11_reconnect_matrix_is_all : forall p z, rvalid p z = true -> In (p, z) rmatrix.
Proof. exact rmatrix_complete. Qed.

(* the loop goroutine ends within eight of its own steps from ANY of its states and environments once it
   was told to stop *)
Theorem C11_reconnect_loop_exits : forall st e, stoppable st e = true -> fst (lrun 8 st e) = LExit.
Proof. exact loop_exits. Qed.

Print Assumptions C11_returns.
Print Assumptions C11_matrix_is_all.
Print Assumptions C11_returns_all_schedules.
Print Assumptions C11_bounded.
Print Assumptions C11_ctx_error.
Print Assumptions C11_ctx_wakes_while_reader_is_busy.
Print Assumptions C11_retry_ignores_original_context.
Print Assumptions C11_ctx_error_through_wrappers.
Print Assumptions C11_all_wake.
Print Assumptions C11_all_wake_error.
Print Assumptions C11_conn_end_all_return.
Print Assumptions C11_done_and_reader_exit.
Print Assumptions C11_reader_never_blocks_on_handoff.
Print Assumptions C11_serve_returns_after_stray_acks.
Print Assumptions C11_returns_after_stray_acks.
Print Assumptions C11_close_ends_stalled_write.
Print Assumptions C11_close_after_disconnect.
Print Assumptions C11_reconnect_connect_ctx_error.
Print Assumptions C11_connect_lock_blocks.
Print Assumptions C11_connect_lock_refuted.
Print Assumptions C11_reconnect_returns.
Print Assumptions C11_reconnect_handoff_never_blocks.
Print Assumptions C11_reconnect_connack_accepted_reaches_supervision.
Print Assumptions C11_reconnect_connect_ctx_at_each_point.
Print Assumptions C11_reconnect_matrix_is_all.
Print Assumptions C11_reconnect_loop_exits.
