(* C09 — Reconnect lifecycle: redial after loss, one live transport, stop on Disconnect.
   Statements only; proofs in Reconnect_proofs.v. The model [trace cfg sc] is the loop goroutine of
   reconnclient.go:81-182 (+ Disconnect 203-212, RetryClient.Disconnect retryclient.go:238-254) as a
   function of a per-iteration outcome oracle [sc_script] (dial error | connect failed: refused
   CONNACK / no CONNACK until the timeout / peer closed | connected then ended by peer close /
   protocol error / keep-alive timeout / graceful end) and of where a Disconnect call and a
   cancellation of Connect's context land (iteration, phase in {dialling, connecting, connected,
   waiting to redial}). Durations are int64 nanoseconds with explicit wrap-around ([wrap64]);
   [c_guard cfg = true] and [c_abort cfg = true] are the code as it is (nil-chTask guard of fix
   cbf3ad0; Disconnect cancels a pending handshake, fix 515978c). [c_timeout cfg] says whether a
   connect timeout is configured (ReconnectOptions.Timeout <> 0); without one an absent CONNACK
   ends only by Disconnect or, before the first success, by the caller's context ([blocks]). *)
From MQ Require Import Base Codec Reconnect Reconnect_proofs.
Open Scope Z_scope.

(* "waiting at least the configured base delay, at least doubling that lower bound per consecutive
   failure up to the maximum and starting from the base again after a success":
   for every scenario (any fault sequence, Disconnect / cancellation anywhere) the waits the loop
   performs are, in order, the waits of the rule [spec_waits]: the k-th consecutive wait since the
   last established connection is base for k = 0 and min (base * 2^k) max for k >= 1
   ([wait_rule]), the count restarting after every established connection. Hypothesis:
   0 < base < 2^62, 0 <= max < 2^62 (no int64 overflow; see ex_overflow for what happens beyond). *)
Theorem C09_backoff : forall cfg sc,
  0 < c_base cfg < two62 -> 0 <= c_max cfg < two62 ->
  exists n, waits (trace cfg sc) = firstn n (spec_waits (c_base cfg) (c_max cfg) 0 (sc_script sc)).
Proof. exact backoff_prefix. Qed.

(* ... and when nothing stops the loop it performs all of them: one wait after every failed
   iteration and after every connection that was established and then lost
   ([can_block]: "no CONNACK" is a failure of the attempt only if a connect timeout is configured) *)
Theorem C09_backoff_complete : forall cfg script post,
  0 < c_base cfg < two62 -> 0 <= c_max cfg < two62 -> existsb is_graceful script = false ->
  existsb (can_block cfg) script = false ->
  waits (trace cfg (no_stops script post)) = spec_waits (c_base cfg) (c_max cfg) 0 script.
Proof. exact backoff_all. Qed.

(* the rule in the words of the property (for base <= max): every wait is at least base and at most
   max, and each consecutive wait is min (2 * previous) max *)
Theorem C09_backoff_rule_bounds : forall base max k,
  0 < base -> base <= max ->
  base <= wait_rule base max k <= max /\
  wait_rule base max (S k) = Z.min (2 * wait_rule base max k) max.
Proof. exact wait_rule_bounds. Qed.

(* the doubling never overflows time.Duration under the range hypothesis *)
Theorem C09_backoff_no_overflow : forall base max k,
  0 < base < two62 -> 0 <= max < two62 -> - two63 <= wait_rule base max k * 2 < two63.
Proof. exact wait_rule_no_overflow. Qed.

(* "after a connection ... ends unexpectedly it dials again ... until a connection is established":
   for every finite sequence fs of failures and lost connections (anything but a graceful end)
   followed by an accepting iteration, with no Disconnect / cancellation: the loop dials once per
   element of fs without ever exiting, dials again, and that dial is followed by the new
   transport and its CONNECT *)
Theorem C09_redials_until_connected : forall cfg fs ce post,
  existsb is_graceful fs = false -> existsb (can_block cfg) fs = false ->
  exists t1 k t2,
    trace cfg (no_stops (fs ++ [OConnected ce]) post) =
      t1 ++ [EvDial (length fs); EvOpen k; EvConnect k (c_conn cfg)] ++ t2 /\
    dials t1 = seq 0 (length fs) /\ existsb is_exit t1 = false.
Proof. exact redials_until_connected. Qed.

(* "it never has two transports open at once": in every scenario a transport is only opened
   when every earlier one has been closed ... *)
Theorem C09_one_transport : forall cfg sc, one_open (trace cfg sc) = true.
Proof. exact one_transport. Qed.

(* ... i.e. after every prefix of the trace at most one transport is open *)
Theorem C09_one_transport_every_prefix : forall cfg sc p s,
  trace cfg sc = p ++ s -> (length (live p) <= 1)%nat.
Proof. exact one_transport_prefix. Qed.

(* "every connection begins with exactly one CONNECT carrying the same client id and options":
   in every scenario each Open k is immediately followed by Connect k with the configured
   fields, and no other CONNECT is ever written *)
Theorem C09_one_connect_same_options : forall cfg sc, connects_ok (c_conn cfg) (trace cfg sc) = true.
Proof. exact one_connect_same_options. Qed.

(* "after Disconnect ... it never dials again and Disconnect returns": in every scenario, in
   whichever phase Disconnect lands (also before any SetClient, while a CONNACK is awaited with or
   without a connect timeout, and after the loop has exited), what follows the call contains no
   Dial and no panic, and contains Disconnect's return *)
Theorem C09_stop_disconnect : forall cfg sc pre post,
  c_guard cfg = true -> c_abort cfg = true -> trace cfg sc = pre ++ EvStop SDisconnect :: post ->
  existsb (is_stop SDisconnect) pre = false ->
  (forall i, ~ In (EvDial i) post) /\ In EvDiscReturned post /\ ~ In EvPanic post.
Proof. exact stop_disconnect_prop. Qed.

(* "(or cancellation before the first connection succeeded)": if no iteration up to the one in
   which the context is cancelled establishes a connection, nothing is dialled after the
   cancellation and the loop exits *)
Theorem C09_stop_cancel : forall cfg sc n ph pre post,
  c_guard cfg = true -> sc_cancel sc = Some (n, ph) ->
  all_fail (firstn (S n) (sc_script sc)) = true ->
  trace cfg sc = pre ++ EvStop SCancel :: post -> existsb (is_stop SCancel) pre = false ->
  (forall i, ~ In (EvDial i) post) /\ In EvExit post.
Proof. exact stop_cancel_prop. Qed.

(* the context each dial runs under (the loop's variable ctx: the caller's context until the first
   success, context.Background() afterwards, reconnclient.go:108-112) is never a finished one *)
Theorem C09_dials_with_live_context : forall cfg sc, c_guard cfg = true ->
  forallb negb (dial_ctx_done cfg sc (init_state cfg) (sc_script sc)) = true.
Proof. exact dials_with_live_context. Qed.

(* "only cancellation before the first success may stop it": if the context given to Connect is
   cancelled (or expires) at a point by which a connection has succeeded - in whatever phase of
   whatever later iteration - the loop does exactly what it does when that context is never
   cancelled: same dials, same connections, same waits, same reaction to Disconnect *)
Theorem C09_caller_context_irrelevant_after_first_success : forall cfg sc,
  (forall n ph, sc_cancel sc = Some (n, ph) ->
     existsb is_success (firstn n (sc_script sc)) = true \/
     (exists o, nth_error (sc_script sc) n = Some o /\ is_success o = true /\ (ph = PConnected \/ ph = PWait))) ->
  drop_cancel (trace cfg sc) = trace cfg (without_cancel sc).
Proof. exact caller_context_irrelevant_after_first_success. Qed.

(* F18, what fix 515978c repaired: without [c_abort] the previous theorem is false - no connect
   timeout, CONNACK withheld, Disconnect during that wait: the loop stays in Connect for ever and
   Disconnect never returns *)
Theorem C09_stop_disconnect_without_abort_refuted :
  exists cfg sc, c_guard cfg = true /\ c_abort cfg = false /\
    existsb (is_stop SDisconnect) (trace cfg sc) = true /\ existsb is_ret (trace cfg sc) = false /\
    (exists st, snd (run cfg sc) = Blocked st).
Proof. exact f18_without_fix. Qed.

(* Not a sentence of the property, recorded because the faithful model (and the implementation,
   see notes/C09.md) shows it: a Disconnect that arrives while a redial is in flight can leave the
   newly established connection open after Disconnect has returned *)
Theorem C09_all_closed_after_disconnect_refuted :
  exists cfg sc, c_guard cfg = true /\
    (exists st, snd (run cfg sc) = Exited st) /\ In EvDiscReturned (trace cfg sc) /\ live (trace cfg sc) <> [].
Proof. exact all_closed_after_disconnect_refuted. Qed.

Print Assumptions C09_backoff.
Print Assumptions C09_backoff_complete.
Print Assumptions C09_backoff_rule_bounds.
Print Assumptions C09_backoff_no_overflow.
Print Assumptions C09_redials_until_connected.
Print Assumptions C09_one_transport.
Print Assumptions C09_one_transport_every_prefix.
Print Assumptions C09_one_connect_same_options.
Print Assumptions C09_stop_disconnect.
Print Assumptions C09_stop_cancel.
Print Assumptions C09_dials_with_live_context.
Print Assumptions C09_caller_context_irrelevant_after_first_success.
Print Assumptions C09_stop_disconnect_without_abort_refuted.
Print Assumptions C09_all_closed_after_disconnect_refuted.
