(* C12 — Retransmissions are faithful: same id/content, DUP=1, no PUBLISH after PUBREL.
   Statements in RetryProps.v (about the model RetrySys.step / RetryCore), proofs in
   RetryInv_Wire*.v. [run cfg fp sys0 ls = Some s]: s is the state of the retry / reconnect system
   after ANY enabled sequence ls of labels (submissions, task goroutine iterations, every step of the
   reconnect loop, idle cuts) under ANY fault plan fp (write failures, packets or acknowledgements
   lost with the connection, silent drops) and any configuration; [wf_labels]: request identifiers
   are positive and increase in submission order (ghost numbering; identifier reuse is C15). *)
From MQ Require Import Base RetryCore RetrySys CheckRetry RetryProps RetryInv_Wire RetryInv_WireSys RetryInv_WireEx.

(* "Whenever the client transmits a PUBLISH for a message again it carries the same packet
   identifier, topic, payload, QoS and retain flag as the first transmission and has DUP=1, while
   first transmissions have DUP=0 and QoS 0 messages are never retransmitted."
   [faithful (pub_entries u wire)]: of the PUBLISH packets with identifier u in the whole wire log
   (all connections), the first has DUP=0, every later one equals it in all fields and has DUP=1,
   and there is no later one if the QoS is 0. *)
Theorem C12_faithful : C12_faithful_stmt.
Proof. exact RetryInv_WireSys.C12_faithful. Qed.

(* "Once the client has sent PUBREL for a QoS 2 message it never sends PUBLISH for that message
   again, only PUBREL with the same identifier" *)
Theorem C12_no_publish_after_pubrel : C12_no_publish_after_pubrel_stmt.
Proof. exact RetryInv_WireSys.C12_no_publish_after_pubrel. Qed.

(* "... the same packet identifier, topic, payload, QoS and retain flag": what is written is the
   message the application submitted (also for the copy queued for a deferred first transmission) *)
Theorem C12_submitted_message : C12_submitted_message_stmt.
Proof. exact RetryInv_WireSys.C12_submitted_message. Qed.

(* "the same holds for the retry handle (ErrorWithRetry) that the base client returns for an
   interrupted request": in whatever state it is run, the handle of an interrupted publish writes
   that PUBLISH with DUP=1 first (then at most PUBRELs), the handle obtained after PUBREC only PUBREL *)
Theorem C12_retry_handle : C12_retry_handle_stmt.
Proof. exact RetryInv_Wire.retry_handle. Qed.

Print Assumptions C12_faithful.
Print Assumptions C12_no_publish_after_pubrel.
Print Assumptions C12_submitted_message.
Print Assumptions C12_retry_handle.
(* non-vacuity: RetryInv_WireEx.ex_run_nonvacuous, ex_handle_publish, ex_handle_pubrel *)
Print Assumptions ex_run_nonvacuous.

(* ---------- the base client's retry handle in isolation, with real packet identifiers and a
   signaller that already holds waiters of other requests (model RetryHandle.v, proofs in
   RetryHandle_proofs.v; tied to the real BaseClient by the harness family "handle") ----------
   [publish_chain w m s0 ss]: Publish of m on client (bs_k s0) of ANY world w (any number of clients,
   connected or not, open or closed, any content of the five signaller maps), then Retry of each
   returned ErrorWithRetry on the client named by the next step, for ANY number of steps; before each
   attempt other requests register / unregister arbitrary waiters on the target (bs_ops), also
   under m's own identifier; each attempt is interrupted (or not) as its environment says: Write
   fails, connection closed / ctx done while waiting, at the PUBLISH and at the PUBREL step. *)
From MQ Require Import RetryHandle RetryHandle_proofs.

(* "Whenever the client transmits a PUBLISH for a message again it carries the same packet identifier,
   topic, payload, QoS and retain flag as the first transmission and has DUP=1, while first
   transmissions have DUP=0 ... Once the client has sent PUBREL ... never PUBLISH again, only PUBREL with
   the same identifier; the same holds for the retry handle".
   [chain_faithful m l]: l starts with PUBLISH DUP=0 carrying m's topic, payload, QoS, retain and m's
   identifier (a non-zero one if the caller left it 0); every later PUBLISH equals it in all fields
   (identifier included), has DUP=1 and precedes every PUBREL; every PUBREL has that identifier.
   Hypothesis: the message has an identifier or newID hands out a non-zero one (C15_nonzero). *)
Theorem C12_handle_chain_faithful :
  forall w m s0 ss w' o,
    (h_id m <> 0%N \/ bs_fresh s0 <> 0%N) ->
    publish_chain w m s0 ss = (w', o) ->
    exists rest, bw_wire w' = bw_wire w ++ rest /\ chain_faithful m (map snd rest) = true.
Proof. exact handle_chain_faithful. Qed.

(* the same for a handle obtained after PUBREC, on its own: whatever chain of retries is run from it
   writes only PUBREL packets with the message's identifier, and ends with nil, ErrNotConnected or the
   same kind of handle *)
Theorem C12_handle_after_pubrec_only_pubrel :
  forall m c ss w n w' o,
    run_chain w (BoHandle (BhPubRel m) c) n ss = (w', o) ->
    exists rest, bw_wire w' = bw_wire w ++ rest /\
      (forall x, In x rest -> exists k ok, x = (k, WRel (h_id m) ok)) /\
      (o = BoDone \/ o = BoNotConnected \/ exists c', o = BoHandle (BhPubRel m) c').
Proof. exact handle_after_pubrec_only_pubrel. Qed.

(* what a handle writes, and how the attempt ends, is determined by the handle, by the target being
   initialised / open and by the environment: two runs of one handle on targets that agree on these
   write the same packets whatever waiters the two signallers hold (e.g. one of them another
   un-acknowledged request under the same identifier), whatever newID would return and whoever calls *)
Theorem C12_handle_independent_of_signaller :
  forall wa wb ka kb h fa fb oa ob env wa' ma outa wb' mb outb,
    h_id (bh_msg h) <> 0%N ->
    bc_inited (bw_get wa ka) = bc_inited (bw_get wb kb) ->
    bc_open (bw_get wa ka) = bc_open (bw_get wb kb) ->
    run_handle wa ka h fa oa env = (wa', ma, outa) ->
    run_handle wb kb h fb ob env = (wb', mb, outb) ->
    exists l, bw_wire wa' = bw_wire wa ++ map (pair ka) l /\ bw_wire wb' = bw_wire wb ++ map (pair kb) l
              /\ outa = outb /\ ma = mb.
Proof. exact run_handle_signaller_independent. Qed.

(* "QoS 0 messages are never retransmitted": Publish of a QoS 0 message never returns a handle *)
Theorem C12_handle_qos0_none :
  forall w k m fresh owner env w' m' o,
    h_qos m = 0%N -> base_publish w k m fresh owner env = (w', m', o) -> forall h c, o <> BoHandle h c.
Proof. exact qos0_no_handle. Qed.

(* Not a clause of C12, recorded because the family exercises it: when the handle runs on a client on
   which ANOTHER request waits under the same identifier in the same signaller map, that request's
   waiter is replaced (it can no longer be signalled; identifier uniqueness is C15's subject, routing
   C07's); waiters under other identifiers and other clients are untouched *)
Theorem C12_handle_collision_overwrites :
  forall w k h fresh owner env w' m o o',
    h_id (bh_msg h) <> 0%N -> (1 <= h_qos (bh_msg h) <= 2)%N ->
    bc_inited (bw_get w k) = true ->
    reg_val w k (handle_kind h) (h_id (bh_msg h)) = Some o' -> o' <> owner ->
    run_handle w k h fresh owner env = (w', m, o) ->
    reg_val w' k (handle_kind h) (h_id (bh_msg h)) <> Some o'.
Proof. exact handle_collision_overwrites. Qed.

Theorem C12_handle_other_ids_untouched :
  forall w k h fresh owner env w' m o,
    h_id (bh_msg h) <> 0%N ->
    run_handle w k h fresh owner env = (w', m, o) ->
    (forall kd j, j <> h_id (bh_msg h) -> reg_val w' k kd j = reg_val w k kd j)
    /\ (forall k', k' <> k -> bw_get w' k' = bw_get w k').
Proof. exact handle_other_ids_untouched. Qed.

(* The reader goroutine and late / duplicate acknowledgements (serve.go: an acknowledgement for which
   no call is waiting is looked up, its entry deleted, the packet dropped or left in an abandoned
   channel): nothing is written — in particular no PUBREL for an unexpected PUBREC —, no flag changes,
   and on the signaller it is the operation MUnreg. Hence a chain with any number of stray
   acknowledgements between attempts is a [publish_chain] (MUnreg in bs_ops) and
   C12_handle_chain_faithful covers the WHOLE wire of the connection, reader included. *)
Theorem C12_handle_stray_ack_inert :
  forall w k kd i,
    bw_wire (serve_stray_ack w k kd i) = bw_wire w
    /\ (forall k', bc_inited (bw_get (serve_stray_ack w k kd i) k') = bc_inited (bw_get w k')
                /\ bc_open (bw_get (serve_stray_ack w k kd i) k') = bc_open (bw_get w k'))
    /\ (bc_inited (bw_get w k) = true -> serve_stray_ack w k kd i = bh_apply_ops w k [MUnreg kd i]).
Proof. exact stray_ack_inert. Qed.

Print Assumptions C12_handle_chain_faithful.
Print Assumptions C12_handle_stray_ack_inert.
Print Assumptions C12_handle_after_pubrec_only_pubrel.
Print Assumptions C12_handle_independent_of_signaller.
Print Assumptions C12_handle_qos0_none.
Print Assumptions C12_handle_collision_overwrites.
Print Assumptions C12_handle_other_ids_untouched.
(* non-vacuity: RetryHandle_proofs.ex_chain (4 attempts on 3 clients, other requests under the same
   identifier in three maps), ex_chain_lib (library-numbered), ex_collision *)
Print Assumptions ex_chain.

(* ---------- the two models connected (RetryHandle_refine.v) ----------
   The system model's attempts (RetryCore: a fault plan decides each packet's fate) refine the
   base-client handle model (RetryHandle: the interruption point is an explicit environment).
   Mapping: message [to_hmsg] (identifier = ghost uid); client flags bc_inited = cl_inited, bc_open =
   cl_alive (signaller maps unrelated: they do not matter); environment of the next packet of a
   connection = [senv_of_fkind] of the plan's entry for it (FNone -> acknowledged, FWriteFail -> Write
   fails, FLostAfter / FAckLost -> connection closed while waiting, FSilentReq / FSilentAck -> ctx done
   while waiting), a dead client = a closed transport; wire [wire_proj] (PUBLISH with DUP and
   identifier, PUBREL with identifier, Write ok or not; SUBSCRIBE / UNSUBSCRIBE dropped); result
   [ares_rel] (ADone ~ nil, AFail (RPublish m | RPubRel m) ~ the handle of the same kind for to_hmsg m
   with ETimeout iff the cause is the context, ANoRetry ENotConnected ~ ErrNotConnected, ANoRetry EConn ~
   plain write error of QoS 0, AHung ~ what the call returns once its context is cancelled). *)
From MQ Require Import RetryHandle_refine.

(* what [send] returns for a packet is the handle model's effective environment of that packet *)
Theorem C12_refine_send_env :
  forall cfg fp w k p w' r,
    send cfg fp w k p = (w', r) ->
    senv_of_cres r = bh_eff (cl_alive (get_client w k))
                       (senv_of_fkind (eff_fkind fp (get_client w k) k (cl_sent (get_client w k)))).
Proof. exact send_env. Qed.

(* attempt_publish on client k of ANY world, against pub_attempt on ANY handle-model client that agrees
   on initialised / alive, under the mapped environment: same packets (projected), same message,
   related results *)
Theorem C12_refine_attempt_publish :
  forall cfg fp w k m dup w' r bw kb fresh owner bw' m' o,
    (p_qos m <= 2)%N -> p_uid m <> 0%nat ->
    bc_inited (bw_get bw kb) = cl_inited (get_client w k) ->
    bc_open (bw_get bw kb) = cl_alive (get_client w k) ->
    attempt_publish cfg fp w k m dup = (w', r) ->
    pub_attempt bw kb (to_hmsg m) dup fresh owner (env_pub fp w k) = (bw', m', o) ->
    exists ext, w_wire w' = w_wire w ++ ext
      /\ bw_wire bw' = bw_wire bw ++ map (pair kb) (wire_proj ext)
      /\ m' = to_hmsg m
      /\ ares_rel m r o.
Proof. exact attempt_publish_refines. Qed.

(* likewise run_entry on the entries that stand for a handle (RPublish m / RPubRel m) against run_handle *)
Theorem C12_refine_run_entry :
  forall cfg fp w k e h w' r bw kb fresh owner bw' m' o m,
    (e = RPublish m \/ e = RPubRel m) ->
    (p_qos m <= 2)%N -> p_uid m <> 0%nat ->
    handle_of e = Some h ->
    bc_inited (bw_get bw kb) = cl_inited (get_client w k) ->
    bc_open (bw_get bw kb) = cl_alive (get_client w k) ->
    run_entry cfg fp w k e = (w', r) ->
    run_handle bw kb h fresh owner (match e with RPubRel _ => env_rel fp w k | _ => env_pub fp w k end) = (bw', m', o) ->
    exists ext, w_wire w' = w_wire w ++ ext
      /\ bw_wire bw' = bw_wire bw ++ map (pair kb) (wire_proj ext)
      /\ m' = to_hmsg m
      /\ ares_rel m r o.
Proof. exact run_entry_refines. Qed.

(* SIMULATION of whole chains: [sys_publish_chain cfg fp m s0 ss] = the wire entries of the first
   transmission of m in world (ss_w s0) on client (ss_k s0) followed by those of every returned entry
   run in the (arbitrary) world and on the client of the next step; there is a chain of the handle
   model (Publish of to_hmsg m, then Retry of each handle; attempt i on client i of [sim_world], which
   mirrors the system clients; environments read off the fault plan) writing exactly its projection *)
Theorem C12_refine_chain_simulated :
  forall cfg fp m s0 ss,
    (p_qos m <= 2)%N -> p_uid m <> 0%nat ->
    let r0 := snd (attempt_publish cfg fp (ss_w s0) (ss_k s0) m false) in
    let first := {| bs_k := 0%nat; bs_ops := []; bs_fresh := 0%N; bs_env := env_pub fp (ss_w s0) (ss_k s0) |} in
    exists bw' o',
      publish_chain (sim_world s0 ss) (to_hmsg m) first (sim_steps cfg fp r0 1%nat ss) = (bw', o')
      /\ map snd (bw_wire bw') = wire_proj (sys_publish_chain cfg fp m s0 ss).
Proof. exact sys_chain_simulated. Qed.

(* hence C12_handle_chain_faithful transfers to every chain of attempts the system model makes for
   one message (any worlds, clients, fault plan, configuration) *)
Theorem C12_refine_chain_faithful :
  forall cfg fp m s0 ss,
    (p_qos m <= 2)%N -> p_uid m <> 0%nat ->
    chain_faithful (to_hmsg m) (wire_proj (sys_publish_chain cfg fp m s0 ss)) = true.
Proof. exact sys_chain_faithful_via_handle. Qed.

(* and the handle-level predicate implies the system-level predicates C12_faithful /
   C12_no_publish_after_pubrel are stated with, on ANY list of wire entries and for every identifier *)
Theorem C12_refine_predicates_agree :
  forall m0 L,
    chain_faithful m0 (wire_proj L) = true ->
    forall u, faithful (pub_entries u L) = true /\ no_publish_after_rel u L = true.
Proof. exact chain_faithful_system_predicates. Qed.

Print Assumptions C12_refine_send_env.
Print Assumptions C12_refine_attempt_publish.
Print Assumptions C12_refine_run_entry.
Print Assumptions C12_refine_chain_simulated.
Print Assumptions C12_refine_chain_faithful.
Print Assumptions C12_refine_predicates_agree.
(* non-vacuity: RetryHandle_refine.ex_sys_chain *)
Print Assumptions ex_sys_chain.
