(* C12 — Retransmissions are faithful: same id/content, DUP=1, no PUBLISH after PUBREL.
   Statements in RetryProps.v (about the model RetrySys.step / RetryCore), proofs in
   RetryInv_Wire*.v. [run cfg fp sys0 ls = Some s]: s is the state of the retry / reconnect system
   after ANY enabled sequence ls of labels (submissions, task goroutine iterations, every step of the
   reconnect loop, idle cuts) under ANY fault plan fp (write failures, packets or acknowledgements
   lost with the connection, silent drops) and any configuration; [wf_labels]: request identifiers
   are positive and increase in submission order (ghost numbering; identifier reuse is C15). *)
From MQ Require Import Base RetryCore RetrySys CheckRetry RetryProps RetryInv_Wire RetryInv_WireSys RetryInv_WireEx.

(* "Whenever the client transmits a PUBLISH for a message again it carries the same packet
   identifier, topic, payload, QoS and retain flag as the first transmission and has DUP=1, while
   first transmissions have DUP=0 and QoS 0 messages are never retransmitted."
   [faithful (pub_entries u wire)]: of the PUBLISH packets with identifier u in the whole wire log
   (all connections), the first has DUP=0, every later one equals it in all fields and has DUP=1,
   and there is no later one if the QoS is 0. *)
Theorem C12_faithful : C12_faithful_stmt.
Proof. exact RetryInv_WireSys.C12_faithful. Qed.

(* "Once the client has sent PUBREL for a QoS 2 message it never sends PUBLISH for that message
   again, only PUBREL with the same identifier" *)
Theorem C12_no_publish_after_pubrel : C12_no_publish_after_pubrel_stmt.
Proof. exact RetryInv_WireSys.C12_no_publish_after_pubrel. Qed.

(* "... the same packet identifier, topic, payload, QoS and retain flag": what is written is the
   message the application submitted (also for the copy queued for a deferred first transmission) *)
Theorem C12_submitted_message : C12_submitted_message_stmt.
Proof. exact RetryInv_WireSys.C12_submitted_message. Qed.

(* "the same holds for the retry handle (ErrorWithRetry) that the base client returns for an
   interrupted request": in whatever state it is run, the handle of an interrupted publish writes
   that PUBLISH with DUP=1 first (then at most PUBRELs), the handle obtained after PUBREC only PUBREL *)
Theorem C12_retry_handle : C12_retry_handle_stmt.
Proof. exact RetryInv_Wire.retry_handle. Qed.

Print Assumptions C12_faithful.
Print Assumptions C12_no_publish_after_pubrel.
Print Assumptions C12_submitted_message.
Print Assumptions C12_retry_handle.
(* non-vacuity: RetryInv_WireEx.ex_run_nonvacuous, ex_handle_publish, ex_handle_pubrel *)
Print Assumptions ex_run_nonvacuous.
