(* C02 — QoS 2 messages are delivered onward exactly once across reconnects.
   Statements: RetryProps.v (about the retry / reconnect system model RetrySys.step with the
   conforming broker RetryCore.broker_step, both QoS 2 receiver methods; CheckRetry.model_ok compares
   the model with the real ReconnectClient on generated fault scenarios).
   Proofs: RetryInv_Qos2.v (invariant I-qos2, per message identifier), RetryInv_Qos2Live.v (the
   composition with C01's liveness).

   Hypotheses. wf_labels: request uids are positive and increasing in submission order (ghost
   numbering; the uid of a publish stands for its packet identifier, assumed not to collide: C15).
   session_kept_labels: "a broker that ... keeps session state": every accepting CONNACK after the
   first says session present (only then the broker may discard b_q2); the first accept may say
   "no session", proved harmless because nothing is processed on a connection before its CONNACK.
   Non-vacuity: RetryInv_Qos2.C02_hypotheses_satisfiable / C02_mid_exchange (a QoS 2 and a QoS 1
   publish, cuts after PUBLISH-before-PUBREC and at PUBREL, three connections, both methods),
   RetryInv_Qos2Live.C02_eventually_hypotheses_satisfiable. *)
From MQ Require Import Base RetryCore RetrySys CheckRetry RetryProps RetryInv_Qos2 RetryInv_Qos2Live.

(* "each QoS 2 message accepted by the retrying / reconnecting client is delivered onward ...
   never twice, for every pattern of connection breaks during the PUBLISH/PUBREC/PUBREL/PUBCOMP
   exchange": at every reachable state (any label sequence, any fault plan including silent drops,
   method A or B), the broker's onward-delivery log contains the message at most once. *)
Theorem C02_at_most_once : C02_at_most_once_stmt.
Proof. exact RetryInv_Qos2.C02_at_most_once. Qed.
Print Assumptions C02_at_most_once.

(* "delivered onward exactly once": once the PUBCOMP of the message's PUBREL has arrived
   (CheckRetry.final_acked), the delivery log contains it exactly once. *)
Theorem C02_exactly_once_when_acked : C02_exactly_once_when_acked_stmt.
Proof. exact RetryInv_Qos2.C02_exactly_once_when_acked. Qed.
Print Assumptions C02_exactly_once_when_acked.

(* "In particular, once the client has received PUBCOMP for a message it never transmits anything
   for that message again": in the log of all Write attempts, no entry carrying the identifier u
   follows a PUBREL u whose PUBCOMP arrived (CheckRetry.silent_after_comp, the same predicate that is
   evaluated on the implementation's wire traces). Needs no session hypothesis. *)
Theorem C02_silent_after_pubcomp : C02_silent_after_pubcomp_stmt.
Proof. exact RetryInv_Qos2.C02_silent_after_pubcomp. Qed.
Print Assumptions C02_silent_after_pubcomp.

(* "exactly once, never zero times".  Composition: C01_eventually_acked (props/C01.v) says that from
   every reachable, not hung state, once connections numbered K and above are fault-free, a
   continuation without further submissions leads to a state where every accepted request that needs
   an acknowledgement has it on the wire — for a QoS 2 publish that acknowledgement is the PUBCOMP.
   C02_exactly_once_when_acked, applied to the whole run (prefix ++ continuation), then gives
   delivery count = 1 there.  It needs session_kept_labels of the whole run; the continuation built
   for C01 accepts its connections with "session present" only, but C01_eventually_acked_stmt hides
   the continuation's labels behind an existential, so RetryInv_Qos2Live.v replays that construction
   keeping this fact (eventually_acked_kept) and derives: *)
Theorem C02_eventually_exactly_once : forall cfg fp ls s K,
  run cfg fp sys0 ls = Some s -> wf_labels ls -> session_kept_labels ls -> reliable_from fp K ->
  w_hung (s_w s) = false ->
  exists ls' s', no_submit ls' /\ run cfg fp s ls' = Some s' /\
    (forall u, q2_submitted s u -> count u (b_delivered (broker_of s')) = 1).
Proof. exact RetryInv_Qos2Live.C02_eventually_exactly_once. Qed.
Print Assumptions C02_eventually_exactly_once.

(* the same, stating in addition that the whole run (prefix ++ continuation) keeps the session, so
   that C02_at_most_once applies at every moment of it as well *)
Theorem C02_eventually_exactly_once_kept : forall cfg fp ls s K,
  run cfg fp sys0 ls = Some s -> wf_labels ls -> session_kept_labels ls -> reliable_from fp K ->
  w_hung (s_w s) = false ->
  exists ls' s', no_submit ls' /\ session_kept_labels (ls ++ ls') /\ run cfg fp s ls' = Some s' /\
    (forall u, q2_submitted s u -> count u (b_delivered (broker_of s')) = 1).
Proof. exact RetryInv_Qos2Live.C02_eventually_exactly_once_kept. Qed.
Print Assumptions C02_eventually_exactly_once_kept.
