(* C20 — Handlers behind ServeMux / ServeAsync get private copies of the message.
   Statements only; proofs in Clone_proofs.v. The model (Clone.v) is message.go:27-36 (clone),
   servemux.go:47-54 (ServeMux.Serve) and serveasync.go:25-27 (ServeAsync.Serve) over a heap of message
   objects and payload backing arrays; [run muxes sched] executes an arbitrary schedule [sched] of
   atomic steps of all participants (callers building / mutating / dispatching messages, loop
   iterations of ServeMux.Serve, goroutines of ServeAsync starting, and single mutator operations of
   any handler invocation on the *Message it received, during its call or any time later through a
   retained pointer) from the empty state. [muxes] is any list of ServeMux registrations. *)
From MQ Require Import Base Filter Clone Clone_proofs.
Open Scope nat_scope.

(* "receives its own copy of the message with the same topic, payload, QoS, retain, DUP and
   identifier": the clone has equal content, lives in a new object with a new backing array, and no
   existing object or array is shared with it or modified by making it *)
Theorem C20_clone_equal_and_fresh : forall h p extra,
  wfp h p ->
  let h' := fst (clone h p extra) in
  let q := snd (clone h p extra) in
  content_of h' q = content_of h p /\
  wfp h' q /\ q <> p /\ buf_of h' q <> buf_of h' p /\
  (forall r, wfp h r -> r <> q /\ buf_of h' r <> buf_of h' q /\ view_of h' r = view_of h r /\ ho h' r = ho h r).
Proof. exact clone_equal_and_fresh. Qed.

(* the whole property, for all registrations, all mutator programs, all schedules [pre ++ post]:
   (1) every handler entered through ServeMux or ServeAsync saw, on entry, exactly the content its
       dispatch was made with — whatever sibling handlers, earlier handlers with retained pointers,
       or the caller (after an asynchronous dispatch returned) did in between;
   (2) a holder's message (the caller's original, a handler's copy, the copy waiting in a goroutine
       that has not run yet) is never changed by steps of anybody else, spare capacity included;
   (3) a holder's own operation acts on its message as on a private value. *)
Theorem C20_isolation : forall muxes pre post,
  let st := run muxes pre in
  let st' := exec muxes clone post st in
  (forall d hid k c, In (EvEntry d hid k c) (st_log st') -> exists a, In (EvDispatch d a c) (st_log st')) /\
  (forall a v, agent_view st a = Some v -> Forall (fun s => actor s <> Some a) post -> agent_view st' a = Some v) /\
  (forall a o ag v, acting st' a = Some ag -> agent_view st' a = Some v ->
                    agent_view (step muxes clone st' (SMut a o)) a = Some (vop o v)).
Proof. exact isolation. Qed.

(* the events mean what they say: a dispatch event carries the dispatcher's message content at the
   moment of the call, an entry event the content of the message the entered handler holds; a dispatch
   number names one dispatch *)
Theorem C20_events_are_contents : forall muxes st s,
  (forall d a c, st_log (step muxes clone st s) = EvDispatch d a c :: st_log st -> agent_content st a = Some c) /\
  (forall d hid k c, st_log (step muxes clone st s) = EvEntry d hid k c :: st_log st ->
                     agent_content (step muxes clone st s) k = Some c).
Proof.
  intros muxes st s. split; [intros d a c; apply dispatch_is_agent_content | intros d hid k c; apply entry_is_agent_content].
Qed.

Theorem C20_dispatch_unique : forall muxes sched d a c a' c',
  In (EvDispatch d a c) (st_log (run muxes sched)) -> In (EvDispatch d a' c') (st_log (run muxes sched)) ->
  a = a' /\ c = c'.
Proof. exact dispatch_unique. Qed.

(* ServeMux.Serve selects the handler of every loop iteration by the dispatched topic *)
Theorem C20_mux_matches_dispatched_topic : forall muxes sched f fr src,
  let st := run muxes sched in
  nth_error (st_frames st) f = Some fr -> open_frame fr = true ->
  nth_error (st_agents st) (f_agent fr) = Some src ->
  exists c, disp_of (st_log st) (f_disp fr) = Some (f_agent fr, c) /\
            m_topic (ho (st_h st) (a_ptr src)) = c_topic c.
Proof. intros muxes sched f fr src st. apply muxnext_matches_dispatched_topic. apply run_inv. Qed.

(* the copy discipline does not depend on the load: after any history, with any number of
   asynchronous handlers dispatched and not entered / entered and still running / returned with
   retained pointers, ServeAsync.Serve hands the handler a message with the dispatcher's content in
   storage of its own, touches nobody's message, and returns without waiting for any handler *)
Theorem C20_async_any_load : forall muxes sched a ag hid extra,
  let st := run muxes sched in
  acting st a = Some ag ->
  let st' := step muxes clone st (SAsync a hid extra) in
  let k := length (st_agents st) in
  exists q,
    nth_error (st_agents st') k = Some (mkAgent q (Some (st_nd st, hid))) /\
    length (st_agents st') = S k /\ pending_count st' = S (pending_count st) /\
    content_of (st_h st') q = content_of (st_h st) (a_ptr ag) /\
    (forall j agj, nth_error (st_agents st) j = Some agj ->
        q <> a_ptr agj /\ buf_of (st_h st') q <> buf_of (st_h st') (a_ptr agj) /\
        view_of (st_h st') (a_ptr agj) = view_of (st_h st) (a_ptr agj)) /\
    acting st' a = Some ag.
Proof. exact async_any_load. Qed.

(* sanity: the model can express the bugs — with Payload: m.Payload a later handler sees an earlier
   handler's write and the caller's message changes; with the original pointer handed out the
   caller's message changes *)
Theorem C20_shallow_clone_refuted :
  (exists d hid k c a c0,
     let log := st_log (exec demo_muxes shallow_clone demo_sched init) in
     In (EvEntry d hid k c) log /\ disp_of log d = Some (a, c0) /\ c_payload c <> c_payload c0) /\
  (exists a v,
     let st := exec demo_muxes shallow_clone demo_pre init in
     actor demo_write <> Some a /\ agent_view st a = Some v /\
     agent_view (step demo_muxes shallow_clone st demo_write) a <> Some v).
Proof. split; [exact shallow_clone_refuted_entry | exact shallow_clone_refuted_noninterference]. Qed.

Theorem C20_no_clone_refuted :
  exists a v s,
    let st := exec demo_muxes no_clone demo_pre init in
    actor s <> Some a /\ agent_view st a = Some v /\
    agent_view (step demo_muxes no_clone st s) a <> Some v.
Proof. exact no_clone_refuted_noninterference. Qed.

Print Assumptions C20_clone_equal_and_fresh.
Print Assumptions C20_isolation.
Print Assumptions C20_events_are_contents.
Print Assumptions C20_dispatch_unique.
Print Assumptions C20_mux_matches_dispatched_topic.
Print Assumptions C20_async_any_load.
Print Assumptions C20_shallow_clone_refuted.
Print Assumptions C20_no_clone_refuted.
