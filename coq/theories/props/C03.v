(* C03 — Requests reach the wire in submission order, also when retransmitted.
   Statements in RetryProps.v (about the model RetrySys.step / RetryCore, default queued publishing
   mode), proofs in RetryInv_Wire*.v. [run cfg fp sys0 ls = Some s]: s is the state after ANY enabled
   label sequence ls (one submitting goroutine, task goroutine, reconnect loop, idle cuts) under ANY
   fault plan fp; [wf_labels ls]: request identifiers are positive and increase in submission order,
   so "in submission order" reads "in increasing identifier order". *)
From MQ Require Import Base RetryCore RetrySys CheckRetry RetryProps RetryInv_WireSys RetryInv_WireEx.

(* "on every connection the PUBLISH packets of different messages appear in submission order
   (retransmissions included)": for every connection k the identifiers of the PUBLISH packets handed
   to the open transport of k never decrease (equal neighbours = the same message again) *)
Theorem C03_conn_order : C03_conn_order_stmt.
Proof. exact RetryInv_WireSys.C03_conn_order. Qed.

(* "the order in which requests are transmitted for the first time is the submission order (QoS 0
   messages dropped during an outage aside)": first occurrences of request identifiers
   (PUBLISH / SUBSCRIBE / UNSUBSCRIBE of application requests) in the global wire log strictly increase *)
Theorem C03_first_tx_order : C03_first_tx_order_stmt.
Proof. exact RetryInv_WireSys.C03_first_tx_order. Qed.

(* "Consequently, when connections fail only by closing, a conforming broker first-delivers QoS>=1
   messages in submission order." *)
Theorem C03_first_delivery_order : C03_first_delivery_order_stmt.
Proof. exact RetryInv_WireSys.C03_first_delivery_order. Qed.

Print Assumptions C03_conn_order.
Print Assumptions C03_first_tx_order.
Print Assumptions C03_first_delivery_order.
(* non-vacuity: RetryInv_WireEx.ex_run_nonvacuous (a run with closing-only faults, two reconnects) *)
Print Assumptions ex_run_nonvacuous.
