(* C17 — The registered handler keeps receiving messages on every later connection.
   Statements only; proofs in HandlerSys_proofs.v. The model [run] (HandlerSys.v) is the labelled
   transition system of RetryClient.Handle (retryclient.go:92-99), SetClient (276-288), Connect
   (428-451), BaseClient.Handle (client.go:92-97), the reader's per-message handler read
   (serve.go:77-82, 86-91, 132-137) and the reconnect loop (reconnclient.go:87-160). A schedule is
   ANY list of labels (any number of reconnects, Handle anywhere); [run ls = Next s evs] says the
   schedule is possible and produced the delivery log [evs]. [last_handle], [current_of],
   [count_inbound], [spec_events], [spec_current] are functions of the history alone. *)
From MQ Require Import Base HandlerSys HandlerSys_proofs.
Open Scope N_scope.

(* "Connect installs the stored handler on the new client before connecting": whenever the install
   section of RetryClient.Connect runs, after any history, the client about to be connected holds
   the handler registered by the latest Handle call *)
Theorem C17_handler_installed : forall ls s evs,
  run (ls ++ [R_connect_begin]) = Next s evs ->
  exists k c, cur s = Some k /\ nth_error (clients s) k = Some c /\ c_phase c = Installed /\
              c_handler c = rc_handler s /\ rc_handler s = last_handle ls.
Proof. exact handler_installed. Qed.

(* "Handle stores and forwards to the current client", at any moment ("whether before or after
   connecting and whenever it is replaced") *)
Theorem C17_handle_forwards : forall ls h s evs,
  run (ls ++ [U_handle h]) = Next s evs ->
  rc_handler s = h /\ cur s = current_of ls /\
  forall k c, cur s = Some k -> nth_error (clients s) k = Some c -> c_handler c = h.
Proof. exact handle_forwards. Qed.

(* invariant: from its install section on, and while it is current and its connection lives, the
   current client holds the handler registered by the latest Handle call *)
Theorem C17_invariant : forall ls s evs,
  run ls = Next s evs ->
  forall k c, current_of ls = Some k -> nth_error (clients s) k = Some c -> live (c_phase c) = true ->
              c_handler c = last_handle ls.
Proof. exact invariant. Qed.

(* "receives the messages arriving on every subsequent connection": in every schedule, a message
   processed on the connection that is current at that moment — however many SetClient/Connect
   happened before, wherever the Handle calls fell, also directly behind the CONNACK or before
   Connect returned — is handed to the handler registered by the latest Handle call before it *)
Theorem C17_delivery : forall pre k m post s evs,
  run (pre ++ B_inbound k m :: post) = Next s evs ->
  current_of pre = Some k ->
  nth_error evs (count_inbound pre) = Some (Deliver k m (last_handle pre)).
Proof. exact delivery. Qed.

(* "whenever it is replaced" includes a handler that replaces the handler from inside its own
   callback (Handle on the reader goroutine): the message being delivered goes to the handler
   registered before — every later one, by C17_delivery, to the new one *)
Theorem C17_delivery_reentrant : forall pre k m h' post s evs,
  run (pre ++ B_inbound_handle k m h' :: post) = Next s evs ->
  current_of pre = Some k ->
  last_handle pre <> None /\
  nth_error evs (count_inbound pre) = Some (Deliver k m (last_handle pre)).
Proof. exact delivery_reentrant. Qed.

(* QoS 2 with PUBLISH and PUBREL as separate steps: "all times at which Handle is called" includes the
   time between them — the hand-over happens at the PUBREL and goes to the handler registered then
   (first registration after the PUBLISH, or a replacement) *)
Theorem C17_delivery_q2_at_release : forall pre k m post s evs,
  run (pre ++ B_q2_release k m :: post) = Next s evs ->
  current_of pre = Some k ->
  nth_error evs (count_inbound pre) = Some (Deliver k m (last_handle pre)).
Proof. exact delivery_q2. Qed.

(* "messages arriving right after each CONNACK" includes the broker's retransmissions for a resumed
   session: a QoS 2 PUBLISH processed on a connection, DUP=1 or not, is released by the PUBREL that
   follows it, although the new connection object has never seen the first copy *)
Theorem C17_q2_redelivery_released : forall ls k m d s evs,
  run (ls ++ [B_q2_publish k m d]) = Next s evs ->
  exists s', run (ls ++ [B_q2_publish k m d; B_q2_release k m]) = Next s'
                 (evs ++ [Deliver k m (entitled (hist_of ls) k)]).
Proof. exact q2_publish_then_release. Qed.

(* received QoS 2 messages are SESSION state (MQTT 3.1.1 4.1; /repo since 9cd7f01, finding F21): a
   QoS 2 PUBLISH processed on connection k (PUBREC sent) and not yet released is released by a PUBREL
   on ANY connection k' of the session whose reader runs — the same, or one created by any number of
   later SetClient/Connect (reconnects, also attempts that never got a CONNACK) — provided no PUBREL
   for m and no clean-session connect came in between ([keeps]): it is handed to the handler the
   message is entitled to THEN (for the current connection: the latest registered one), exactly once
   (a repeated PUBREL is not enabled: nothing is handed over twice); the release step is the
   hand-over followed by PUBCOMP (serve.go:126-143) *)
Theorem C17_q2_released_on_any_later_connection : forall pre k m d mid s evs k' c',
  run (pre ++ B_q2_publish k m d :: mid) = Next s evs ->
  forallb (keeps m) mid = true ->
  nth_error (clients s) k' = Some c' -> reader_runs (c_phase c') = true ->
  (exists s', run ((pre ++ B_q2_publish k m d :: mid) ++ [B_q2_release k' m]) =
              Next s' (evs ++ [Deliver k' m (entitled (hist_of (pre ++ B_q2_publish k m d :: mid)) k')])) /\
  run ((pre ++ B_q2_publish k m d :: mid) ++ [B_q2_release k' m; B_q2_release k' m]) = Disabled.
Proof. exact q2_released_on_later_connection. Qed.

(* ... and it never blocks the reader or the RetryClient: no schedule of the model deadlocks
   (the reader does not hold its client's lock while the handler runs) *)
Theorem C17_no_deadlock : forall ls, run ls <> Deadlocked.
Proof. exact no_deadlock. Qed.

(* every message on EVERY connection of ANY schedule — in particular on a connection that a bare
   RetryClient user has already replaced with SetClient but that is still open (make-before-break):
   it is handed to the handler the history entitles it to, [entitled]: the registered handler if
   the connection is the current one, otherwise the handler last put on that client (by Connect's
   install section or by a Handle call while it was current). It is never dropped because of the
   replacement. [spec_every] is the whole log; V_seq / V_race / V_stress evaluate exactly it *)
Theorem C17_delivery_every_connection : forall pre k m post s evs,
  run (pre ++ B_inbound k m :: post) = Next s evs ->
  nth_error evs (count_inbound pre) = Some (Deliver k m (entitled (hist_of pre) k)).
Proof. exact delivery_any_connection. Qed.

Theorem C17_delivery_every : forall ls s evs, run ls = Next s evs -> evs = spec_every ls.
Proof. exact delivery_every. Qed.

(* ... and what a replaced client was left with is frozen: no later step of any kind changes it *)
Theorem C17_replaced_connection_frozen : forall ls l k,
  h_cur (hist_of ls) <> Some k -> (k < length (h_inst (hist_of ls)))%nat ->
  installed_of (ls ++ [l]) k = installed_of ls k.
Proof. exact replaced_frozen. Qed.

(* the current-connection claim as an executable predicate *)
Theorem C17_delivery_predicate : forall ls s evs,
  run ls = Next s evs -> meets (spec_current ls) evs = true.
Proof. exact delivery_meets. Qed.

(* "including connections created by automatic reconnection": for the schedules of the reconnect
   loop (SetClient only after the previous connection is Done) the WHOLE delivery log, on all
   connections, is the log of a client that never reconnects: reconnects are invisible *)
Theorem C17_reconnect_transparent : forall ls s evs,
  run_loop ls = Next s evs -> run ls = Next s evs /\ evs = spec_events ls.
Proof.
  intros ls s evs H. split; [apply run_loop_run; exact H|]. apply (loop_delivery ls s evs H).
Qed.

(* "no inbound message is dropped merely because a reconnect replaced the underlying connection
   object": while a non-nil handler h is registered, a message arriving on any connection of a
   loop schedule is handed to h *)
Theorem C17_never_dropped : forall pre k m post s evs h,
  run_loop (pre ++ B_inbound k m :: post) = Next s evs ->
  last_handle pre = Some h ->
  nth_error evs (count_inbound pre) = Some (Deliver k m (Some h)).
Proof. exact loop_never_dropped. Qed.

(* scope witness: a bare RetryClient user who calls SetClient while the previous connection is still
   read gets messages of the REPLACED connection on that connection's old handler (delivered, by
   C17_delivery_every_connection, but not to the newest handler); the loop never produces this *)
Theorem C17_stale_on_replaced_connection :
  exists ls s, run ls = Next s [Deliver 0 7 (Some 1)] /\ spec_events ls = [Deliver 0 7 (Some 2)] /\
               run_loop ls = Disabled.
Proof. exact stale_on_replaced_connection. Qed.

(* the model distinguishes the implementation from its realistic breakages *)
Theorem C17_breakages_refuted :
  (exists ls, breaks v_no_install ls) /\
  (exists ls, breaks v_late_install ls) /\
  (exists ls, breaks v_first_only ls) /\
  (exists ls, breaks v_no_forward ls) /\
  (exists ls, breaks v_store_if_no_client ls) /\
  (exists ls, breaks v_no_store ls) /\
  (exists ls, breaks v_setclient_clears ls) /\
  (exists ls, (exists s evs, run_loop ls = Next s evs) /\
              run_gen v_lock_through_callback ls = Deadlocked) /\
  (exists ls, (exists s evs, run_loop ls = Next s evs) /\ run_gen v_q2_dup_not_stored ls = Disabled) /\
  (exists ls, (exists s evs, run_loop ls = Next s evs) /\ run_gen v_q2_store_per_connection ls = Disabled) /\
  (exists ls, breaks v_q2_handler_at_publish ls) /\
  (forall ls, ~ breaks faithful ls).
Proof.
  repeat split; [exact no_install_refuted|exact late_install_refuted|exact first_only_refuted|
                 exact no_forward_refuted|exact store_if_no_client_refuted|exact no_store_refuted|
                 exact setclient_clears_refuted|exact lock_through_callback_refuted|exact q2_dup_not_stored_refuted|
                 exact q2_store_per_connection_refuted|exact q2_handler_at_publish_refuted|exact faithful_not_broken].
Qed.

Print Assumptions C17_handler_installed.
Print Assumptions C17_handle_forwards.
Print Assumptions C17_invariant.
Print Assumptions C17_delivery.
Print Assumptions C17_delivery_reentrant.
Print Assumptions C17_delivery_q2_at_release.
Print Assumptions C17_q2_redelivery_released.
Print Assumptions C17_q2_released_on_any_later_connection.
Print Assumptions C17_no_deadlock.
Print Assumptions C17_delivery_every_connection.
Print Assumptions C17_delivery_every.
Print Assumptions C17_replaced_connection_frozen.
Print Assumptions C17_delivery_predicate.
Print Assumptions C17_reconnect_transparent.
Print Assumptions C17_never_dropped.
Print Assumptions C17_stale_on_replaced_connection.
Print Assumptions C17_breakages_refuted.
