(* SpecDecode.v — an independent MQTT 3.1.1 decoder, written from the OASIS standard
   (sections 2.2, 2.3, 3.1-3.14), not from the Go code. It is the "independent decoder" of C05:
   what it reads back from the bytes the client wrote must be what the application asked for. *)
From MQ Require Import Base.
Open Scope N_scope.

Inductive packet :=
| PConnect (level : N) (clean : bool) (keepalive : N) (client_id : str)
           (will : option (str * str * N * bool))   (* topic, payload, qos, retain *)
           (user : option str) (pass : option str)
| PConnAck (session_present : bool) (code : N)
| PPublish (dup : bool) (qos : N) (retain : bool) (topic : str) (id : option N) (payload : str)
| PPubAck (id : N) | PPubRec (id : N) | PPubRel (id : N) | PPubComp (id : N)
| PSubscribe (id : N) (subs : list (str * N))
| PSubAck (id : N) (codes : list N)
| PUnsubscribe (id : N) (topics : list str)
| PUnsubAck (id : N)
| PPingReq | PPingResp | PDisconnect.

(* 2.2.3 Remaining Length: at most four bytes, 7 bits each, least significant group first *)
Fixpoint decode_varint (fuel : nat) (mult acc : N) (bs : list N) : option (N * list N) :=
  match fuel, bs with
  | O, _ => None
  | _, [] => None
  | S f, b :: r =>
      let acc' := acc + (b mod 128) * mult in
      if b <? 128 then Some (acc', r) else decode_varint f (mult * 128) acc' r
  end.

Definition take_n (n : N) (bs : list N) : option (list N * list N) :=
  if n <=? N.of_nat (length bs) then Some (firstn (N.to_nat n) bs, skipn (N.to_nat n) bs) else None.

(* 1.5.2 two byte integer, big endian *)
Definition dec_u16 (bs : list N) : option (N * list N) :=
  match bs with
  | hi :: lo :: r => Some (hi * 256 + lo, r)
  | _ => None
  end.

(* 1.5.3 length-prefixed string (kept as bytes) *)
Definition dec_str (bs : list N) : option (str * list N) :=
  match dec_u16 bs with
  | Some (n, r) => take_n n r
  | None => None
  end.

Definition testbit (v : N) (k : N) : bool := N.odd (v / 2 ^ k).

Definition opt_bind {A B} (o : option A) (f : A -> option B) : option B :=
  match o with Some a => f a | None => None end.
Notation "' p <- e ;; k" := (opt_bind e (fun p => k)) (at level 61, p pattern, e at next level, right associativity).

(* 3.8.3: list of (filter, requested QoS); at least one; QoS in 0..2, upper 6 bits reserved *)
Fixpoint dec_subs (fuel : nat) (bs : list N) : option (list (str * N)) :=
  match fuel with
  | O => None
  | S f =>
      match bs with
      | [] => Some []
      | _ => ' (t, r) <- dec_str bs ;;
             match r with
             | q :: r' => if q <=? 2 then ' rest <- dec_subs f r' ;; Some ((t, q) :: rest) else None
             | [] => None
             end
      end
  end.

Fixpoint dec_topics (fuel : nat) (bs : list N) : option (list str) :=
  match fuel with
  | O => None
  | S f =>
      match bs with
      | [] => Some []
      | _ => ' (t, r) <- dec_str bs ;; ' rest <- dec_topics f r ;; Some (t :: rest)
      end
  end.

(* 3.1 CONNECT variable header and payload *)
Definition dec_connect (body : list N) : option packet :=
  ' (name, r) <- dec_str body ;;
  if negb (str_eqb name [77; 81; 84; 84]) then None else
  match r with
  | level :: flags :: r1 =>
      if testbit flags 0 then None else                        (* reserved, MQTT-3.1.2-3 *)
      let clean := testbit flags 1 in
      let willf := testbit flags 2 in
      let wqos := (flags / 8) mod 4 in
      let wret := testbit flags 5 in
      let passf := testbit flags 6 in
      let userf := testbit flags 7 in
      if negb willf && (negb (wqos =? 0) || wret) then None else  (* MQTT-3.1.2-13, -15 *)
      if wqos =? 3 then None else                              (* MQTT-3.1.2-14 *)
      if passf && negb userf then None else                    (* MQTT-3.1.2-22 *)
      ' (ka, r2) <- dec_u16 r1 ;;
      ' (cid, r3) <- dec_str r2 ;;
      ' (wl, r4) <- (if willf then
                       ' (wt, a) <- dec_str r3 ;; ' (wp, b) <- dec_str a ;; Some (Some (wt, wp, wqos, wret), b)
                     else Some (None, r3)) ;;
      ' (us, r5) <- (if userf then ' (u, a) <- dec_str r4 ;; Some (Some u, a) else Some (None, r4)) ;;
      ' (pw, r6) <- (if passf then ' (p, a) <- dec_str r5 ;; Some (Some p, a) else Some (None, r5)) ;;
      match r6 with
      | [] => Some (PConnect level clean ka cid wl us pw)
      | _ => None
      end
  | _ => None
  end.

Definition dec_id_only (mk : N -> packet) (body : list N) : option packet :=
  match body with
  | [hi; lo] => Some (mk (hi * 256 + lo))
  | _ => None
  end.

Definition is_nil_b (l : list N) : bool := match l with [] => true | _ => false end.

(* decode one control packet from the front of a byte stream *)
Definition spec_decode (bs : list N) : option (packet * list N) :=
  match bs with
  | [] => None
  | h :: r0 =>
      let typ := h / 16 in
      let fl := h mod 16 in
      ' (n, r1) <- decode_varint 4 1 0 r0 ;;
      ' (body, rest) <- take_n n r1 ;;
      ' p <- (match typ with
              | 1 => if fl =? 0 then dec_connect body else None
              | 2 => if fl =? 0 then
                       match body with
                       | [a; c] => if a <=? 1 then Some (PConnAck (a =? 1) c) else None
                       | _ => None
                       end else None
              | 3 => let qos := (fl / 2) mod 4 in
                     if qos =? 3 then None else
                     ' (t, r) <- dec_str body ;;
                     if qos =? 0 then Some (PPublish (testbit fl 3) qos (testbit fl 0) t None r)
                     else ' (id, r') <- dec_u16 r ;;
                          Some (PPublish (testbit fl 3) qos (testbit fl 0) t (Some id) r')
              | 4 => if fl =? 0 then dec_id_only PPubAck body else None
              | 5 => if fl =? 0 then dec_id_only PPubRec body else None
              | 6 => if fl =? 2 then dec_id_only PPubRel body else None
              | 7 => if fl =? 0 then dec_id_only PPubComp body else None
              | 8 => if fl =? 2 then
                       ' (id, r) <- dec_u16 body ;;
                       ' subs <- dec_subs (S (length r)) r ;;
                       match subs with [] => None | _ => Some (PSubscribe id subs) end
                     else None
              | 9 => if fl =? 0 then
                       ' (id, r) <- dec_u16 body ;; Some (PSubAck id r)
                     else None
              | 10 => if fl =? 2 then
                        ' (id, r) <- dec_u16 body ;;
                        ' ts <- dec_topics (S (length r)) r ;;
                        match ts with [] => None | _ => Some (PUnsubscribe id ts) end
                      else None
              | 11 => if fl =? 0 then dec_id_only PUnsubAck body else None
              | 12 => if (fl =? 0) && is_nil_b body then Some PPingReq else None
              | 13 => if (fl =? 0) && is_nil_b body then Some PPingResp else None
              | 14 => if (fl =? 0) && is_nil_b body then Some PDisconnect else None
              | _ => None
              end) ;;
      Some (p, rest)
  end.

(* minimal number of bytes of the remaining-length field, 2.2.3 table *)
Definition min_varint_len (n : N) : nat :=
  if n <=? 127 then 1 else if n <=? 16383 then 2 else if n <=? 2097151 then 3 else 4.
