(* ParsePending_proofs.v — acknowledgements for requests in flight: whatever the peer answers
   (any SUBACK body against any number of requested filters, any acknowledgement bytes at all),
   neither the reader nor a calling goroutine panics, every call returns, and a SUBACK whose
   number of return codes differs from the request yields ErrInvalidSubAck and a closed link. *)
From MQ Require Import Base Codec Codec_proofs Inbound Parse Parse_proofs ParsePending.
Open Scope N_scope.

(* ---------- subscribe.go:100-107 ---------- *)
Lemma set_index_ok subs i v : (i < length subs)%nat ->
  set_index subs i v = Ok (firstn i subs ++ v :: skipn (S i) subs).
Proof. intros H. unfold set_index. apply Nat.ltb_lt in H. rewrite H. reflexivity. Qed.

Lemma set_index_length (subs : list N) i (v : N) : (i < length subs)%nat ->
  length (firstn i subs ++ v :: skipn (S i) subs) = length subs.
Proof.
  intros H. rewrite app_length, firstn_length_le by lia. cbn [length]. rewrite skipn_length. lia.
Qed.

(* the copy loop stays inside the slice exactly when the codes fit *)
Lemma set_index_app (pre : list N) o post v :
  set_index (pre ++ o :: post) (length pre) v = Ok (pre ++ v :: post).
Proof.
  rewrite set_index_ok by (rewrite app_length; cbn [length]; lia).
  rewrite firstn_app, Nat.sub_diag, firstn_all. cbn [firstn]. rewrite app_nil_r.
  rewrite skipn_app. replace (S (length pre) - length pre)%nat with 1%nat by lia.
  rewrite skipn_all2 by lia. reflexivity.
Qed.

Lemma copy_codes_fits : forall codes pre old post, length old = length codes ->
  copy_codes (pre ++ old ++ post) codes (length pre) = Ok (pre ++ codes ++ post).
Proof.
  induction codes as [|c r IH]; intros pre old post H; destruct old as [|o old']; cbn [length] in H;
    try discriminate; cbn [copy_codes app]; [reflexivity|].
  rewrite set_index_app.
  replace (pre ++ c :: old' ++ post) with ((pre ++ [c]) ++ old' ++ post)
    by (rewrite <- app_assoc; reflexivity).
  replace (S (length pre)) with (length (pre ++ [c])) by (rewrite app_length; cbn [length]; lia).
  rewrite IH by lia. rewrite <- app_assoc. reflexivity.
Qed.

(* ... and panics (index out of range) as soon as there is one code too many: without the count
   check of subscribe.go:100 a SUBACK with surplus return codes kills the process *)
Lemma copy_codes_surplus_panics : forall codes subs i, (i <= length subs)%nat ->
  (length subs < i + length codes)%nat -> copy_codes subs codes i = Panic.
Proof.
  induction codes as [|c r IH]; intros subs i Hi H; cbn [copy_codes length] in *; [lia|].
  unfold set_index. destruct (Nat.ltb i (length subs)) eqn:E; [|reflexivity].
  apply Nat.ltb_lt in E. apply IH; rewrite set_index_length by lia; lia.
Qed.

Theorem subscribe_complete_spec subs codes :
  subscribe_complete subs codes =
  if Nat.eqb (length codes) (length subs) then Ok codes else Err CEInvalidSubAck.
Proof.
  unfold subscribe_complete. destruct (Nat.eqb (length codes) (length subs)) eqn:E; [|reflexivity].
  apply Nat.eqb_eq in E. cbn [negb].
  pose proof (copy_codes_fits codes [] subs [] (eq_sym E)) as H.
  cbn [app length] in H. rewrite !app_nil_r in H. exact H.
Qed.

(* for EVERY SUBACK body and EVERY number of requested filters *)
Theorem subscribe_complete_no_panic subs codes : subscribe_complete subs codes <> Panic.
Proof.
  rewrite subscribe_complete_spec. destruct (Nat.eqb (length codes) (length subs)); discriminate.
Qed.

Theorem subscribe_wrong_count subs codes : length codes <> length subs ->
  subscribe_complete subs codes = Err CEInvalidSubAck.
Proof.
  intros H. rewrite subscribe_complete_spec. apply Nat.eqb_neq in H. rewrite H. reflexivity.
Qed.

(* ---------- routing ---------- *)
Definition callers (pd : pending) : list nat := map (fun w => fst (fst w)) pd.

Lemma take_waiter_callers typ id : forall pd w pd', take_waiter typ id pd = Some (w, pd') ->
  forall c, In c (callers pd) <-> c = fst (fst w) \/ In c (callers pd').
Proof.
  induction pd as [|[[c0 k0] i0] r IH]; intros w pd' H c; cbn [take_waiter] in H; [discriminate|].
  destruct ((ack_type k0 =? typ) && ((typ =? 13) || (i0 =? id))).
  - injection H as <- <-. cbn [callers map fst In]. intuition congruence.
  - destruct (take_waiter typ id r) as [[w1 r1]|] eqn:E; [|discriminate].
    injection H as <- <-. specialize (IH w1 r1 eq_refl c).
    cbn [callers map fst In] in *. tauto.
Qed.

Lemma route_no_panic pd typ flag body : route pd typ flag body <> RtPanic.
Proof.
  unfold route. destruct (ack_of typ flag body) as [[id codes]|]; [|discriminate].
  destruct (take_waiter typ id pd) as [[[[c k] i] pd']|]; [|discriminate].
  destruct k; try discriminate.
  pose proof (subscribe_complete_no_panic subs codes) as H.
  destruct (subscribe_complete subs codes); [discriminate | discriminate | congruence].
Qed.

(* what a hand-over does to the waiter table: the woken caller either returned or is still in it *)
Lemma route_callers pd typ flag body :
  match route pd typ flag body with
  | RtNone | RtPanic => True
  | RtDone pd' c _ | RtCloses pd' c => forall x, In x (callers pd) <-> x = c \/ In x (callers pd')
  | RtRel pd' c _ => forall x, In x (callers pd) <-> In x (callers pd')
  end.
Proof.
  unfold route. destruct (ack_of typ flag body) as [[id codes]|]; [|exact I].
  destruct (take_waiter typ id pd) as [[[[c k] i] pd']|] eqn:E; [|exact I].
  pose proof (take_waiter_callers typ id pd _ _ E) as H. cbn [fst] in H.
  destruct k; try exact H.
  - destruct (subscribe_complete subs codes); [exact H | exact H | exact I].
  - intros x. rewrite H. cbn [callers map fst In]. intuition congruence.
Qed.

Lemma close_all_in pd c : In c (callers pd) -> In (PdDone c CRClosed) (close_all pd).
Proof.
  unfold callers, close_all. intros H. apply in_map_iff in H. destruct H as (w & <- & Hw).
  apply in_map_iff. exists w. split; [reflexivity | exact Hw].
Qed.

(* ---------- the loop ---------- *)
Theorem serve_pending_no_panic f : forall h sb pd s, snd (serve_pending f h sb pd s) <> EndPanic.
Proof.
  induction f as [|f IH]; intros h sb pd s; cbn [serve_pending]; [discriminate|].
  pose proof (read_packet_no_panic s) as Hnp.
  destruct (read_packet s) as [r alloc]. cbn [fst] in Hnp.
  destruct r as [typ flag body rest|e|]; [|discriminate|congruence].
  pose proof (dispatch_no_panic h sb typ flag body) as Hd.
  destruct (dispatch h sb typ flag body) as [[sb' ev]|e|]; [|discriminate|congruence].
  pose proof (route_no_panic pd typ flag body) as Hr.
  destruct (route pd typ flag body) as [|pd' c res|pd' c id|pd' c|]; [| | |discriminate|congruence].
  - specialize (IH h sb' pd rest). destruct (serve_pending f h sb' pd rest). exact IH.
  - specialize (IH h sb' pd' rest). destruct (serve_pending f h sb' pd' rest). exact IH.
  - specialize (IH h sb' pd' rest). destruct (serve_pending f h sb' pd' rest). exact IH.
Qed.

Theorem serve_pending_no_fuel f : forall h sb pd s, (length s < f)%nat ->
  snd (serve_pending f h sb pd s) <> EndFuel.
Proof.
  induction f as [|f IH]; intros h sb pd s Hl; [lia|]. cbn [serve_pending].
  destruct (read_packet s) as [r alloc] eqn:Erp.
  destruct r as [typ flag body rest|e|]; [|discriminate|discriminate].
  apply read_packet_shrinks in Erp.
  destruct (dispatch h sb typ flag body) as [[sb' ev]|e|]; [|discriminate|discriminate].
  assert (Hr : (length rest < f)%nat) by lia.
  destruct (route pd typ flag body) as [|pd' c res|pd' c id|pd' c|]; [| | |discriminate|discriminate].
  - specialize (IH h sb' pd rest Hr). destruct (serve_pending f h sb' pd rest). exact IH.
  - specialize (IH h sb' pd' rest Hr). destruct (serve_pending f h sb' pd' rest). exact IH.
  - specialize (IH h sb' pd' rest Hr). destruct (serve_pending f h sb' pd' rest). exact IH.
Qed.

(* no call hangs: when the loop has ended, every goroutine that had a request in flight has
   returned (with its result, ErrInvalidSubAck, or ErrClosedTransport) *)
Theorem serve_pending_all_return f : forall h sb pd s e,
  snd (serve_pending f h sb pd s) = EndErr e ->
  forall c, In c (callers pd) -> exists r, In (PdDone c r) (fst (serve_pending f h sb pd s)).
Proof.
  induction f as [|f IH]; intros h sb pd s e; cbn [serve_pending]; [discriminate|].
  destruct (read_packet s) as [r alloc].
  set (al := lift_sv match alloc with Some n => [EvAlloc n] | None => [] end).
  destruct r as [typ flag body rest|e0|]; [| |discriminate].
  2:{ intros _ c Hc. exists CRClosed. cbn [fst]. apply in_or_app. right. apply close_all_in, Hc. }
  destruct (dispatch h sb typ flag body) as [[sb' ev]|e0|]; [| |discriminate].
  2:{ intros _ c Hc. exists CRClosed. cbn [fst]. apply in_or_app. right. apply close_all_in, Hc. }
  pose proof (route_callers pd typ flag body) as Hrc.
  destruct (route pd typ flag body) as [|pd' c0 res|pd' c0 id|pd' c0|]; [| | | |discriminate].
  - specialize (IH h sb' pd rest e). destruct (serve_pending f h sb' pd rest) as [evs e1].
    cbn [fst snd] in *. intros He c Hc. destruct (IH He c Hc) as (r & Hr).
    exists r. apply in_or_app. right. apply in_or_app. right. exact Hr.
  - specialize (IH h sb' pd' rest e). destruct (serve_pending f h sb' pd' rest) as [evs e1].
    cbn [fst snd] in *. intros He c Hc. apply Hrc in Hc. destruct Hc as [-> | Hc].
    + exists res. apply in_or_app. right. apply in_or_app. right. left. reflexivity.
    + destruct (IH He c Hc) as (r & Hr).
      exists r. apply in_or_app. right. apply in_or_app. right. right. exact Hr.
  - specialize (IH h sb' pd' rest e). destruct (serve_pending f h sb' pd' rest) as [evs e1].
    cbn [fst snd] in *. intros He c Hc. apply Hrc in Hc. destruct (IH He c Hc) as (r & Hr).
    exists r. apply in_or_app. right. apply in_or_app. right. right. exact Hr.
  - cbn [fst snd]. intros _ c Hc. apply Hrc in Hc. destruct Hc as [-> | Hc].
    + exists CRInvalidSubAck. apply in_or_app. right. apply in_or_app. right. left. reflexivity.
    + exists CRClosed. apply in_or_app. right. apply in_or_app. right. right. apply close_all_in, Hc.
Qed.

(* with nothing in flight the extended loop is the loop of Parse.v *)
Theorem serve_pending_nil f : forall h sb s,
  serve_pending f h sb [] s = (lift_sv (fst (serve_stream f h sb s)), snd (serve_stream f h sb s)).
Proof.
  induction f as [|f IH]; intros h sb s; cbn [serve_pending serve_stream]; [reflexivity|].
  destruct (read_packet s) as [r alloc].
  destruct r as [typ flag body rest|e|]; cbn [close_all map fst snd]; try (rewrite ?app_nil_r; reflexivity).
  destruct (dispatch h sb typ flag body) as [[sb' ev]|e|]; cbn [close_all map fst snd];
    try (rewrite ?app_nil_r; reflexivity).
  assert (Hr : route [] typ flag body = RtNone).
  { unfold route. destruct (ack_of typ flag body) as [[id codes]|]; reflexivity. }
  rewrite Hr, IH. destruct (serve_stream f h sb' rest) as [evs e]. cbn [fst snd].
  unfold lift_sv. rewrite !map_app. reflexivity.
Qed.

(* ---------- the statements on whole answers ---------- *)
Theorem serve_with_no_panic h pd s : snd (serve_with h pd s) <> EndPanic.
Proof. apply serve_pending_no_panic. Qed.

Theorem serve_with_ends h pd s : exists e, snd (serve_with h pd s) = EndErr e.
Proof.
  pose proof (serve_pending_no_panic (S (length s)) h [] pd s) as H1.
  pose proof (serve_pending_no_fuel (S (length s)) h [] pd s (Nat.lt_succ_diag_r _)) as H2.
  unfold serve_with. destruct (snd (serve_pending (S (length s)) h [] pd s)) as [e| |];
    [exists e; reflexivity | congruence | congruence].
Qed.

Theorem serve_with_all_return h pd s c : In c (callers pd) ->
  exists r, In (PdDone c r) (fst (serve_with h pd s)).
Proof.
  destruct (serve_with_ends h pd s) as (e & He). intros Hc.
  exact (serve_pending_all_return _ h [] pd s e He c Hc).
Qed.

(* a SUBACK for a Subscribe in flight whose code count differs from the request, first in the
   answer: the caller gets ErrInvalidSubAck, the link ends, the other callers return *)
Theorem serve_with_wrong_count h c id subs codes x rest pd :
  length codes <> length subs -> id < 65536 ->
  pack 144 (id / 256 :: id mod 256 :: codes) = Some x ->
  serve_with h ((c, WSub subs, id) :: pd) (x ++ rest)
  = (PdSv (EvAlloc (len (id / 256 :: id mod 256 :: codes))) :: PdSv (EvAck 9 id)
       :: PdDone c CRInvalidSubAck :: close_all pd, EndErr EEOF).
Proof.
  intros Hn Hid Hp. unfold serve_with. cbn [serve_pending].
  rewrite (read_packet_frame 9 0 _ x rest) by (try lia; exact Hp).
  unfold dispatch, parse_suback. change (negb (0 =? 0)) with false. cbv iota.
  change (Nat.ltb (length (id / 256 :: id mod 256 :: codes)) 2) with false. cbv iota.
  rewrite unpack_uint16_cons. cbn [rbind slice_from length Nat.leb skipn fst].
  replace (id / 256 * 256 + id mod 256) with id by lia.
  unfold route, ack_of, parse_suback. change (negb (0 =? 0)) with false. cbv iota.
  change (Nat.ltb (length (id / 256 :: id mod 256 :: codes)) 2) with false. cbv iota.
  rewrite unpack_uint16_cons. cbn [rbind slice_from length Nat.leb skipn].
  replace (id / 256 * 256 + id mod 256) with id by lia.
  cbn [take_waiter ack_type]. change (9 =? 9) with true. change (9 =? 13) with false.
  rewrite N.eqb_refl. cbn [andb orb].
  rewrite (subscribe_wrong_count subs codes Hn). reflexivity.
Qed.

(* ---------- non-vacuity ---------- *)
Example ex_surplus_code_panics_without_check : copy_codes [1] [1; 0] 0 = Panic.
Proof. reflexivity. Qed.
Example ex_wrong_count :
  serve_with true [(0%nat, WSub [1], 7); (1%nat, WPub1, 8)] [144; 4; 0; 7; 1; 0; 64; 2; 0; 8] =
  ([PdSv (EvAlloc 4); PdSv (EvAck 9 7); PdDone 0 CRInvalidSubAck; PdDone 1 CRClosed], EndErr EEOF).
Proof. vm_compute. reflexivity. Qed.
Example ex_qos2 :
  serve_with true [(0%nat, WPub2Rec, 7)] [80; 2; 0; 7; 80; 2; 0; 7; 112; 2; 0; 7] =
  ([PdSv (EvAlloc 2); PdSv (EvAck 5 7); PdRel 0 7; PdSv (EvAlloc 2); PdSv (EvAck 5 7);
    PdSv (EvAlloc 2); PdSv (EvAck 7 7); PdDone 0 (CROk [])], EndErr EEOF).
Proof. vm_compute. reflexivity. Qed.

Print Assumptions serve_with_no_panic.
Print Assumptions serve_with_all_return.
