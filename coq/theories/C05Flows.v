(* C05Flows.v — the two multi-packet flows of C05 (definitions only, proofs in C05Flows_proofs.v):

   1. the broker's side of an inbound stream: a list of packets (PUBLISH of any QoS, PUBREL, and the
      packets the reader merely routes: acknowledgements, SUBACK, PINGRESP) encoded into one byte
      stream, to be fed to the model of the serve loop (Parse.serve = readPacket + Parse + the
      QoS 0/1/2 flow of Inbound.serve_in_step, serve.go:21-139);
   2. what publishImpl and the retry closures stored in ErrorWithRetry (publish.go:131-231:
      retryPublish re-sends the PUBLISH with DUP, retryPublish2 re-sends only the PUBREL) hand to
      the transport on each connection, given where each attempt is interrupted; the same for
      subscribeImpl / unsubscribeImpl (subscribe.go:66-110, unsubscribe.go:44-78), whose retry
      closure runs the whole request again with a fresh identifier.

   The model is value based: a message is a record of byte lists. It has no notion of two slices
   sharing memory, so a buffer-aliasing bug of the implementation cannot be exhibited by the model;
   it is caught by the correspondence (the harness snapshots what the handler receives). *)
From MQ Require Import Base Codec Inbound Parse.
Open Scope N_scope.

(* ---------- 1. inbound stream ---------- *)
Inductive bpkt :=
| BPublish (m : message)
| BPubRel (id : N)
| BOther (typ flag : N) (body : list N).   (* CONNACK/PUBACK/PUBREC/PUBCOMP/SUBACK/UNSUBACK/PINGRESP *)

Definition enc_bpkt (p : bpkt) : option (list N) :=
  match p with
  | BPublish m => pack_publish m
  | BPubRel id => pack_pubrel id
  | BOther t fl b => pack (t * 16 + fl) b
  end.

Fixpoint enc_stream (ps : list bpkt) : option (list N) :=
  match ps with
  | [] => Some []
  | p :: r => x <- enc_bpkt p ;; y <- enc_stream r ;; Some (x ++ y)
  end.

(* what the handler must receive for an encoded PUBLISH (QoS 0 carries no identifier) *)
Definition as_delivered (m : message) : message :=
  {| m_topic := m_topic m; m_id := if m_qos m =? 0 then 0 else m_id m; m_qos := m_qos m;
     m_retain := m_retain m; m_dup := m_dup m; m_payload := m_payload m |}.

(* the packets of the stream that take part in the QoS flows *)
Fixpoint flow_pkts (ps : list bpkt) : list in_pkt :=
  match ps with
  | [] => []
  | BPublish m :: r => InPublish (as_delivered m) :: flow_pkts r
  | BPubRel id :: r => InPubRel id :: flow_pkts r
  | BOther _ _ _ :: r => flow_pkts r
  end.

(* the reader's hand-overs and acknowledgement writes among the events of the serve model *)
Definition in_events (es : list sv_event) : list in_event :=
  flat_map (fun e => match e with EvIn x => [x] | _ => [] end) es.

(* final subBuffer of the QoS flow *)
Fixpoint serve_in_sb (handler : bool) (sb : subbuf) (ps : list in_pkt) : subbuf :=
  match ps with
  | [] => sb
  | p :: r => serve_in_sb handler (fst (serve_in_step handler sb p)) r
  end.

(* ---------- 2. retry handles ---------- *)
(* where an attempt on one connection is interrupted:
   0 = not at all (the exchange completes),
   1 = the write of the first packet of this connection fails,
   2 = the connection closes / the context ends while waiting for the answer to the first packet,
   3 = the write of the second packet (PUBREL after PUBREC) fails,
   4 = ... while waiting for the answer to the second packet (PUBCOMP). *)
Definition cut := N.

(* state captured by the retry closure *)
Inductive pstate :=
| PSend (dup : bool)      (* publishImpl(ctx, cli, message, dup) *)
| PRel                    (* retryPublish2: PUBREC was received, only the PUBREL is repeated *)
| PDone.

Definition with_dup (m : message) (d : bool) : message :=
  {| m_topic := m_topic m; m_id := m_id m; m_qos := m_qos m; m_retain := m_retain m;
     m_dup := d; m_payload := m_payload m |}.

(* packets handed to Transport.Write on one connection, and the state of the returned handle *)
Definition pub_conn (m : message) (st : pstate) (c : cut) : list (option (list N)) * pstate :=
  match st with
  | PDone => ([], PDone)
  | PRel => ([pack_pubrel (m_id m)], if c =? 0 then PDone else PRel)
  | PSend d =>
      let p := pack_publish (with_dup m d) in
      if m_qos m =? 0 then ([p], PDone)
      else if m_qos m =? 1 then ([p], if c =? 0 then PDone else PSend true)
      else if (c =? 1) || (c =? 2) then ([p], PSend true)
      else ([p; pack_pubrel (m_id m)], if c =? 0 then PDone else PRel)
  end.

Fixpoint pub_run (m : message) (st : pstate) (cuts : list cut) : list (list (option (list N))) :=
  match cuts with
  | [] => []
  | c :: r => let '(ws, st') := pub_conn m st c in ws :: pub_run m st' r
  end.

(* ---------- 3. RetryClient's memory of subscriptions and the re-subscription ---------- *)
(* what the application asks of a RetryClient, in order *)
Inductive sop :=
| SSub (subs : list (str * N))     (* RetryClient.Subscribe(filters with requested QoS) *)
| SUnsub (ts : list str).          (* RetryClient.Unsubscribe *)

(* unsubscriptions.applyTo (subscriptions.go:33-43): drop the filter *)
Definition est_unsub (t : str) (est : list (str * N)) : list (str * N) :=
  filter (fun e => negb (str_eqb (fst e) t)) est.

(* subscriptions.applyTo (subscriptions.go:23-29): a filter is kept once; subscribing again replaces it *)
Fixpoint est_sub (subs est : list (str * N)) : list (str * N) :=
  match subs with
  | [] => est
  | (t, q) :: r => est_sub r (est_unsub t est ++ [(t, q)])
  end.

(* subscribeImpl (subscribe.go:100-107) overwrites the caller's slice with the granted codes *)
Fixpoint granted (subs : list (str * N)) (codes : list N) : list (str * N) :=
  match subs, codes with
  | (t, _) :: r, c :: cs => (t, c) :: granted r cs
  | _, _ => subs
  end.

(* RetryClient.subscribe (retryclient.go:177-205): the request is remembered FIRST (with the values the
   application passed), then BaseClient.Subscribe runs and overwrites the slice.
   Result: (subEstablished, the caller's slice afterwards). *)
Definition rc_subscribe (est subs : list (str * N)) (codes : list N) : list (str * N) * list (str * N) :=
  (est_sub subs est, granted subs codes).

(* RetryClient.unsubscribe (retryclient.go:208-236) *)
Definition rc_unsubscribe (est : list (str * N)) (ts : list str) : list (str * N) :=
  fold_left (fun e t => est_unsub t e) ts est.

(* a history: each request with the codes the broker granted for it *)
Fixpoint rc_run (est : list (str * N)) (ops : list (sop * list N)) : list (str * N) :=
  match ops with
  | [] => est
  | (SSub subs, codes) :: r => rc_run (fst (rc_subscribe est subs codes)) r
  | (SUnsub ts, _) :: r => rc_run (rc_unsubscribe est ts) r
  end.

(* Resubscribe (retryclient.go:452-467): one SUBSCRIBE per remembered filter, in order *)
Definition resub_requests (est : list (str * N)) : list (list (str * N)) := map (fun s => [s]) est.

(* specification, independent of the bookkeeping above: the QoS the application asked LAST for a filter
   (None = never subscribed, or unsubscribed since) *)
Fixpoint last_q (t : str) (subs : list (str * N)) (acc : option N) : option N :=
  match subs with
  | [] => acc
  | (t', q) :: r => last_q t r (if str_eqb t' t then Some q else acc)
  end.

Fixpoint asked (t : str) (ops : list sop) (acc : option N) : option N :=
  match ops with
  | [] => acc
  | SSub subs :: r => asked t r (last_q t subs acc)
  | SUnsub ts :: r => asked t r (if existsb (fun x => str_eqb x t) ts then None else acc)
  end.

Fixpoint est_lookup (t : str) (est : list (str * N)) : option N :=
  match est with
  | [] => None
  | (t', q) :: r => if str_eqb t' t then Some q else est_lookup t r
  end.
