(* ParsePending.v — the serve loop of Parse.v extended with the requests that are in flight: the
   signaller's waiter tables (client.go:123-200), the hand-over of an acknowledgement to the
   goroutine that waits for it (serve.go:99-176), and what that goroutine then does with it:
   subscribe.go:93-108 (count check, transport closed on a mismatch, the copy loop
   subs[i].QoS = codes[i] whose index can be out of range = explicit [Panic]),
   unsubscribe.go:68-75, publish.go:176-224 (QoS 1; QoS 2: PUBREC -> PUBREL written, PUBCOMP
   awaited), pingreq.go:39-49. A panic in a caller goroutine kills the process like one in the
   reader: both are [EndPanic].

   Schedule: the peer sends one packet, the goroutine it wakes runs until it blocks or returns,
   then the next packet arrives (the harness realises exactly this schedule with gates). The
   stream is finite: when it ends the reader fails with io.EOF and every request still waiting
   returns ErrClosedTransport (select on c.connClosed). *)
From MQ Require Import Base Codec Inbound Parse.
Open Scope N_scope.

Inductive call_err := CEInvalidSubAck | CEClosedTransport.

(* ---------- subscribe.go:100-107 ---------- *)
(* subs[i].QoS = v : index out of range panics *)
Definition set_index (subs : list N) (i : nat) (v : N) : outcome (list N) call_err :=
  if Nat.ltb i (length subs) then Ok (firstn i subs ++ v :: skipn (S i) subs) else Panic.

(* for i := 0; i < len(subAck.Codes); i++ { subs[i].QoS = QoS(subAck.Codes[i]) } — the loop is
   bounded by the number of codes the PEER sent, the slice by what the application asked for *)
Fixpoint copy_codes (subs codes : list N) (i : nat) : outcome (list N) call_err :=
  match codes with
  | [] => Ok subs
  | c :: r =>
      match set_index subs i c with
      | Ok subs' => copy_codes subs' r (S i)
      | Err e => Err e
      | Panic => Panic
      end
  end.

(* [subs]: the QoS requested per topic filter; result: the QoS granted per filter.
   Err CEInvalidSubAck also means: c.Transport.Close() was called (subscribe.go:102) *)
Definition subscribe_complete (subs codes : list N) : outcome (list N) call_err :=
  if negb (Nat.eqb (length codes) (length subs)) then Err CEInvalidSubAck
  else copy_codes subs codes 0.

(* ---------- requests in flight ---------- *)
Inductive wkind :=
| WSub (subs : list N)     (* Subscribe, requested QoS per filter; waits SUBACK *)
| WUnsub                   (* waits UNSUBACK *)
| WPub1                    (* Publish QoS 1, waits PUBACK *)
| WPub2Rec                 (* Publish QoS 2, waits PUBREC *)
| WPub2Comp                (* Publish QoS 2 after PUBREC: PUBREL written, waits PUBCOMP *)
| WPing.                   (* waits PINGRESP (one slot, no identifier) *)

Definition ack_type (k : wkind) : N :=
  match k with WSub _ => 9 | WUnsub => 11 | WPub1 => 4 | WPub2Rec => 5 | WPub2Comp => 7 | WPing => 13 end.

(* (calling goroutine, what it waits for, packet identifier) *)
Definition waiter := (nat * wkind * N)%type.
Definition pending := list waiter.

Inductive call_res :=
| CROk (granted : list N)          (* nil error; for Subscribe the granted QoS list *)
| CRInvalidSubAck
| CRClosed.                        (* ErrClosedTransport *)

Inductive pd_event :=
| PdSv (e : sv_event)                      (* what the reader did (Parse.v) *)
| PdRel (caller : nat) (id : N)            (* the publisher wrote PUBREL *)
| PdDone (caller : nat) (r : call_res).    (* the call returned *)

(* the well-formed acknowledgement in (typ, flag, body): identifier and SUBACK codes *)
Definition ack_of (typ flag : N) (body : list N) : option (N * list N) :=
  match typ with
  | 4 => match parse_puback flag body with Ok id => Some (id, []) | _ => None end
  | 5 => match parse_pubrec flag body with Ok id => Some (id, []) | _ => None end
  | 7 => match parse_pubcomp flag body with Ok id => Some (id, []) | _ => None end
  | 9 => match parse_suback flag body with Ok p => Some p | _ => None end
  | 11 => match parse_unsuback flag body with Ok id => Some (id, []) | _ => None end
  | 13 => match parse_pingresp flag body with Ok _ => Some (0, []) | _ => None end
  | _ => None
  end.

(* signaller.SubAck(id) etc.: look the waiter up and delete it (client.go:146-200) *)
Fixpoint take_waiter (typ id : N) (pd : pending) : option (waiter * pending) :=
  match pd with
  | [] => None
  | (c, k, i) :: r =>
      if (ack_type k =? typ) && ((typ =? 13) || (i =? id)) then Some ((c, k, i), r)
      else match take_waiter typ id r with
           | Some (w, r') => Some (w, (c, k, i) :: r')
           | None => None
           end
  end.

Inductive routed :=
| RtNone                                        (* nobody waits for it: dropped *)
| RtDone (pd : pending) (c : nat) (r : call_res)
| RtRel (pd : pending) (c : nat) (id : N)       (* PUBREC: the publisher goes on with PUBREL *)
| RtCloses (pd : pending) (c : nat)             (* ErrInvalidSubAck: the caller closed the transport *)
| RtPanic.

Definition route (pd : pending) (typ flag : N) (body : list N) : routed :=
  match ack_of typ flag body with
  | None => RtNone
  | Some (id, codes) =>
      match take_waiter typ id pd with
      | None => RtNone
      | Some ((c, k, i), pd') =>
          match k with
          | WSub subs =>
              match subscribe_complete subs codes with
              | Ok granted => RtDone pd' c (CROk granted)
              | Err _ => RtCloses pd' c
              | Panic => RtPanic
              end
          | WPub2Rec => RtRel ((c, WPub2Comp, i) :: pd') c i
          | _ => RtDone pd' c (CROk [])
          end
      end
  end.

(* the link is gone: every request still waiting returns ErrClosedTransport *)
Definition close_all (pd : pending) : list pd_event := map (fun w => PdDone (fst (fst w)) CRClosed) pd.

Definition lift_sv (es : list sv_event) : list pd_event := map PdSv es.

Fixpoint serve_pending (fuel : nat) (handler : bool) (sb : subbuf) (pd : pending) (s : list N)
  : list pd_event * ending :=
  match fuel with
  | O => ([], EndFuel)
  | S f =>
      let '(r, alloc) := read_packet s in
      let al := lift_sv (match alloc with Some n => [EvAlloc n] | None => [] end) in
      match r with
      | RP_err e => (al ++ close_all pd, EndErr e)
      | RP_panic => (al, EndPanic)
      | RP_ok typ flag body rest =>
          match dispatch handler sb typ flag body with
          | Err e => (al ++ close_all pd, EndErr e)
          | Panic => (al, EndPanic)
          | Ok (sb', ev) =>
              match route pd typ flag body with
              | RtNone =>
                  let '(evs, e) := serve_pending f handler sb' pd rest in (al ++ lift_sv ev ++ evs, e)
              | RtDone pd' c res =>
                  let '(evs, e) := serve_pending f handler sb' pd' rest in
                  (al ++ lift_sv ev ++ PdDone c res :: evs, e)
              | RtRel pd' c id =>
                  let '(evs, e) := serve_pending f handler sb' pd' rest in
                  (al ++ lift_sv ev ++ PdRel c id :: evs, e)
              | RtCloses pd' c =>
                  (* the reader's next Read fails on the transport the caller closed (the harness
                     transport reports io.EOF); nothing after this packet is read *)
                  (al ++ lift_sv ev ++ PdDone c CRInvalidSubAck :: close_all pd', EndErr EEOF)
              | RtPanic => (al ++ lift_sv ev, EndPanic)
              end
          end
      end
  end.

Definition serve_with (handler : bool) (pd : pending) (s : list N) : list pd_event * ending :=
  serve_pending (S (length s)) handler [] pd s.

(* projections used by the comparison *)
Definition pd_sv (es : list pd_event) : list sv_event :=
  flat_map (fun e => match e with PdSv x => [x] | _ => [] end) es.
Definition pd_result (es : list pd_event) (c : nat) : list call_res :=
  flat_map (fun e => match e with PdDone c' r => if Nat.eqb c c' then [r] else [] | _ => [] end) es.
Definition pd_rels (es : list pd_event) : list nat :=
  flat_map (fun e => match e with PdRel c _ => [c] | _ => [] end) es.
