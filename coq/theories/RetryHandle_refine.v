(* RetryHandle_refine.v — the system model's attempts (RetryCore.attempt_publish / attempt_pubrel /
   run_entry, where a fault plan decides each packet's fate) refine the base-client handle model
   (RetryHandle.pub_attempt / rel_attempt / run_handle, where the interruption point is an explicit
   environment). RetryCore.v and RetryHandle.v are not changed.

   Mapping
   * message:  [to_hmsg m]: identifier = the ghost uid ([N.of_nat (p_uid m)]), other fields as they are;
   * client:   [bc_inited] = [cl_inited], [bc_open] = [cl_alive]; the signaller maps of the handle
               model are NOT related to anything (RetryCore has none) — by the frame lemmas of
               RetryHandle_proofs they do not matter;
   * environment of the packet a client writes next: the fault kind the plan holds for it
               ([eff_fkind]: [fp k (cl_sent c)], or FLostAfter while the broker has not accepted the
               connection) mapped by [senv_of_fkind]:
                 FNone -> SAck, FWriteFail -> SWriteFail, FLostAfter / FAckLost -> SClosed,
                 FSilentReq / FSilentAck -> SCtx;
               a dead client ([cl_alive = false]) is a closed transport ([bc_open = false]) on which
               every Write fails in both models ([send_spec]: the [cres] that [send] returns is
               [senv_of_cres]-mapped to exactly [bh_eff alive (senv_of_fkind f)]);
               an attempt that writes PUBLISH and then PUBREL uses the plan's entries number
               [cl_sent] and [cl_sent + 1] of that connection ([env_pub]); a PUBREL-only attempt uses
               entry [cl_sent] ([env_rel]);
   * wire:     [wire_proj]: PPublish m d -> WPub (to_hmsg m) d ok, PPubRel u -> WRel u ok with
               ok = "Write returned nil" (WAck / WOk -> true, WFail / WDead -> false); SUBSCRIBE /
               UNSUBSCRIBE entries are dropped;
   * result:   [ares_rel]: ADone ~ BoDone; AFail (RPublish m) cls ~ BoHandle (BhPublish (to_hmsg m)) c,
               AFail (RPubRel m) cls ~ BoHandle (BhPubRel (to_hmsg m)) c with cls = ETimeout iff
               c = HcCtx; ANoRetry ENotConnected ~ BoNotConnected; ANoRetry EConn ~ BoPlainErr;
               AHung (silent peer, no ResponseTimeout: the call never returns) ~ BoHandle h HcCtx —
               the handle model has no "waits for ever": it says what the call returns if the caller's
               context is then cancelled. The packets written are the same.
   Not related: after a FAILED Write the system model also marks the connection dead (FWriteFail
   "connection closed"), the handle model leaves the transport as it is; the broker, acknowledgement
   and error logs of RetryCore have no counterpart. *)
From MQ Require Import Base RetryCore RetryHandle RetryHandle_proofs.
From MQ Require CheckRetry.
Open Scope N_scope.

(* ---------- the mapping ---------- *)
Definition to_hmsg (m : pubreq) : hmsg :=
  {| h_id := N.of_nat (p_uid m); h_qos := p_qos m; h_retain := p_retain m; h_topic := p_topic m; h_payload := p_payload m |}.

Definition senv_of_fkind (f : fkind) : senv :=
  match f with
  | FNone => SAck
  | FWriteFail => SWriteFail
  | FLostAfter | FAckLost => SClosed
  | FSilentReq | FSilentAck => SCtx
  end.

Definition senv_of_cres (r : cres) : senv :=
  match r with
  | CAck => SAck
  | CWriteFail => SWriteFail
  | CClosedWait => SClosed
  | CTimeout | CHang => SCtx
  end.

(* the fault kind [send] looks up for the i-th packet of connection k *)
Definition eff_fkind (fp : fplan) (c : client) (k i : nat) : fkind :=
  if cl_accepted c then fp k i else FLostAfter.

Definition env_pub (fp : fplan) (w : world) (k : nat) : aenv :=
  let c := get_client w k in
  {| ae_pub := senv_of_fkind (eff_fkind fp c k (cl_sent c));
     ae_rel := senv_of_fkind (eff_fkind fp c k (S (cl_sent c))) |}.

Definition env_rel (fp : fplan) (w : world) (k : nat) : aenv :=
  let c := get_client w k in
  {| ae_pub := SAck; ae_rel := senv_of_fkind (eff_fkind fp c k (cl_sent c)) |}.

Definition wres_ok (r : wres) : bool := match r with WAck | WOk => true | WFail | WDead => false end.

Definition pkt_proj (e : nat * pkt * wres) : list wev :=
  match e with
  | (_, PPublish m d, r) => [WPub (to_hmsg m) d (wres_ok r)]
  | (_, PPubRel u, r) => [WRel (N.of_nat u) (wres_ok r)]
  | _ => []
  end.
Definition wire_proj (l : list (nat * pkt * wres)) : list wev := flat_map pkt_proj l.

Definition cls_of (c : hcause) : errclass := match c with HcCtx => ETimeout | _ => EConn end.

Definition handle_rel (m : pubreq) (e : rentry) (h : bhandle) : Prop :=
  (e = RPublish m /\ h = BhPublish (to_hmsg m)) \/ (e = RPubRel m /\ h = BhPubRel (to_hmsg m)).

Definition ares_rel (m : pubreq) (r : ares) (o : boutcome) : Prop :=
  match r with
  | ADone => o = BoDone
  | AFail e cls => exists h c, o = BoHandle h c /\ handle_rel m e h /\ cls = cls_of c
  | ANoRetry ENotConnected => o = BoNotConnected
  | ANoRetry EConn => o = BoPlainErr
  | ANoRetry ETimeout => False
  | AHung => exists h, o = BoHandle h HcCtx /\ (h = BhPublish (to_hmsg m) \/ h = BhPubRel (to_hmsg m))
  end.

(* the handle a system-model entry stands for *)
Definition handle_of (e : rentry) : option bhandle :=
  match e with
  | RPublish m => Some (BhPublish (to_hmsg m))
  | RPubRel m => Some (BhPubRel (to_hmsg m))
  | _ => None
  end.

(* ---------- send ---------- *)
Definition cres_of (cfg : config) (f : fkind) : cres :=
  match f with
  | FNone => CAck
  | FWriteFail => CWriteFail
  | FLostAfter | FAckLost => CClosedWait
  | FSilentReq | FSilentAck => if c_timeout cfg then CTimeout else CHang
  end.
Definition wres_of (f : fkind) : wres :=
  match f with FNone => WAck | FWriteFail => WFail | _ => WOk end.

Lemma get_client_upd_same w k f : cl_alive (get_client w k) = true -> get_client (upd_client w k f) k = f (get_client w k).
Proof.
  unfold get_client, upd_client, set_clients; cbn [w_clients]. generalize (w_clients w) as l.
  induction k as [|k IH]; intros [|x l]; cbn [nth upd_nth]; intros H; try reflexivity; try discriminate.
  apply IH; exact H.
Qed.

Lemma send_spec cfg fp w k p w' r :
  send cfg fp w k p = (w', r) ->
  let c := get_client w k in
  let f := eff_fkind fp c k (cl_sent c) in
  if cl_alive c
  then r = cres_of cfg f /\ w_wire w' = w_wire w ++ [(k, p, wres_of f)]
       /\ (f = FNone -> get_client w' k = bump c)
  else r = CWriteFail /\ w_wire w' = w_wire w ++ [(k, p, WDead)].
Proof.
  unfold send, eff_fkind. cbn zeta. destruct (cl_alive (get_client w k)) eqn:Ea; cbn [negb].
  - destruct (if cl_accepted (get_client w k) then fp k (cl_sent (get_client w k)) else FLostAfter) eqn:Ef;
      intros H; injection H as <- <-; cbn [cres_of wres_of];
      (split; [reflexivity|]); (split; [reflexivity|]); try discriminate.
    intros _. unfold process, set_broker, log_wire, get_client; cbn [w_clients].
    apply (get_client_upd_same w k bump Ea).
  - intros H; injection H as <- <-. split; reflexivity.
Qed.

(* what [send] returns is the handle model's effective environment of that packet *)
Lemma send_env cfg fp w k p w' r :
  send cfg fp w k p = (w', r) ->
  let c := get_client w k in
  senv_of_cres r = bh_eff (cl_alive c) (senv_of_fkind (eff_fkind fp c k (cl_sent c))).
Proof.
  intros H. apply send_spec in H. cbn zeta in *. destruct (cl_alive (get_client w k)).
  - destruct H as (-> & _). unfold bh_eff.
    destruct (eff_fkind fp (get_client w k) k (cl_sent (get_client w k))); cbn [cres_of senv_of_cres senv_of_fkind];
      try reflexivity; destruct (c_timeout cfg); reflexivity.
  - destruct H as (-> & _). reflexivity.
Qed.

(* ---------- the system model's attempts, in terms of the handle model's write / outcome functions ---------- *)
Lemma attempt_pubrel_sim cfg fp w k m w' r :
  attempt_pubrel cfg fp w k m = (w', r) ->
  let c := get_client w k in
  exists ext, w_wire w' = w_wire w ++ ext
    /\ wire_proj ext = handle_writes (BhPubRel (to_hmsg m)) (cl_inited c) (cl_alive c) (env_rel fp w k)
    /\ ares_rel m r (rel_outcome (to_hmsg m) (cl_inited c) (cl_alive c) (ae_rel (env_rel fp w k))).
Proof.
  unfold attempt_pubrel, handle_writes, rel_outcome, env_rel. cbn zeta. cbn [ae_rel].
  destruct (cl_inited (get_client w k)) eqn:Ei; cbn [negb].
  2:{ intros H; injection H as <- <-. exists []. rewrite app_nil_r. repeat split. }
  destruct (send cfg fp w k (PPubRel (p_uid m))) as [w1 r1] eqn:Es.
  apply send_spec in Es. cbn zeta in Es.
  set (f := eff_fkind fp (get_client w k) k (cl_sent (get_client w k))) in *.
  destruct (cl_alive (get_client w k)) eqn:Ea.
  - destruct Es as (-> & Hw & _). unfold bh_ok, bh_eff. cbn [andb].
    destruct f; cbn [cres_of wres_of senv_of_fkind] in *;
      try (match goal with |- context [c_timeout cfg] => destruct (c_timeout cfg) end);
      intros H; injection H as <- <-; cbn [w_wire add_acked set_hung];
      (eexists; split; [exact Hw|]); cbn [wire_proj flat_map pkt_proj wres_ok app h_id to_hmsg bh_cause fail_class ares_rel];
      (split; [reflexivity|]);
      try reflexivity;
      try (eexists _, _; split; [reflexivity|]; split; [right; split; reflexivity | reflexivity]);
      try (eexists; split; [reflexivity | right; reflexivity]).
  - destruct Es as (-> & Hw). unfold bh_ok, bh_eff. cbn [andb].
    intros H; injection H as <- <-.
    eexists; split; [exact Hw|]. cbn [wire_proj flat_map pkt_proj wres_ok app h_id to_hmsg bh_cause fail_class ares_rel].
    split; [reflexivity|]. eexists _, _; split; [reflexivity|]; split; [right; split; reflexivity | reflexivity].
Qed.

Lemma attempt_publish_sim cfg fp w k m dup w' r :
  p_qos m <= 2 ->
  attempt_publish cfg fp w k m dup = (w', r) ->
  let c := get_client w k in
  exists ext, w_wire w' = w_wire w ++ ext
    /\ wire_proj ext = pub_writes (to_hmsg m) dup (cl_inited c) (cl_alive c) (env_pub fp w k)
    /\ ares_rel m r (pub_outcome (to_hmsg m) (cl_inited c) (cl_alive c) (env_pub fp w k)).
Proof.
  intros Hq. unfold attempt_publish, pub_writes, pub_outcome, env_pub. cbn zeta. cbn [ae_pub ae_rel h_qos to_hmsg].
  destruct (cl_inited (get_client w k)) eqn:Ei; cbn [negb].
  2:{ intros H; injection H as <- <-. exists []. rewrite app_nil_r. repeat split. }
  assert (2 <? p_qos m = false) as -> by lia.
  destruct (send cfg fp w k (PPublish m dup)) as [w1 r1] eqn:Es.
  apply send_spec in Es. cbn zeta in Es.
  set (f := eff_fkind fp (get_client w k) k (cl_sent (get_client w k))) in *.
  set (f2 := eff_fkind fp (get_client w k) k (S (cl_sent (get_client w k)))) in *.
  destruct (cl_alive (get_client w k)) eqn:Ea.
  - destruct Es as (-> & Hw & Hc).
    destruct (p_qos m =? 0) eqn:E0.
    { assert (p_qos m =? 2 = false) as -> by lia. unfold bh_ok, bh_eff. cbn [andb].
      destruct f; cbn [cres_of wres_of senv_of_fkind] in *; try (match goal with |- context [c_timeout cfg] => destruct (c_timeout cfg) end);
        intros H; injection H as <- <-;
        (eexists; split; [exact Hw|]); cbn [wire_proj flat_map pkt_proj wres_ok app ares_rel];
        (split; reflexivity). }
    destruct (p_qos m =? 1) eqn:E1.
    { assert (p_qos m =? 2 = false) as -> by lia. unfold bh_ok, bh_eff. cbn [andb].
      destruct f; cbn [cres_of wres_of senv_of_fkind] in *; try (match goal with |- context [c_timeout cfg] => destruct (c_timeout cfg) end);
        intros H; injection H as <- <-; cbn [w_wire add_acked set_hung];
        (eexists; split; [exact Hw|]); cbn [wire_proj flat_map pkt_proj wres_ok app bh_cause fail_class ares_rel];
        (split; [reflexivity|]);
        try reflexivity;
        try (eexists _, _; split; [reflexivity|]; split; [left; split; reflexivity | reflexivity]);
        try (eexists; split; [reflexivity | left; reflexivity]). }
    assert (p_qos m =? 2 = true) as -> by lia. unfold bh_ok, bh_acked, bh_eff. cbn [andb].
    destruct f eqn:Ef; cbn [cres_of wres_of senv_of_fkind] in *; try (match goal with |- context [c_timeout cfg] => destruct (c_timeout cfg) end);
      try (intros H; injection H as <- <-; cbn [w_wire set_hung];
           (eexists; split; [exact Hw|]); cbn [wire_proj flat_map pkt_proj wres_ok app bh_cause fail_class ares_rel];
           (split; [reflexivity|]);
           try (eexists _, _; split; [reflexivity|]; split; [left; split; reflexivity | reflexivity]);
           try (eexists; split; [reflexivity | left; reflexivity]); fail).
    (* PUBREC arrived: the PUBREL step on the bumped client *)
    intros H. apply attempt_pubrel_sim in H. cbn zeta in H.
    specialize (Hc eq_refl). rewrite Hc in H.
    destruct H as (ext2 & Hw2 & Hp2 & Hr2).
    unfold env_rel in Hp2, Hr2. cbn zeta in Hp2, Hr2. rewrite Hc in Hp2, Hr2.
    cbn [bump cl_inited cl_alive cl_accepted cl_sent ae_rel] in Hp2, Hr2.
    rewrite Ei, Ea in Hp2, Hr2. unfold eff_fkind in Hp2, Hr2. cbn [cl_accepted cl_sent] in Hp2, Hr2. fold f2 in Hp2, Hr2.
    unfold handle_writes in Hp2. cbn [negb ae_rel h_id to_hmsg] in Hp2.
    eexists. split; [rewrite Hw2, Hw, <- app_assoc; reflexivity|].
    unfold wire_proj in *. rewrite flat_map_app. cbn [flat_map pkt_proj wres_ok app]. rewrite Hp2.
    split; [reflexivity|].
    unfold bh_eff in *. cbn [negb] in Hr2. exact Hr2.
  - destruct Es as (-> & Hw). unfold bh_ok, bh_acked, bh_eff. cbn [andb]. rewrite andb_false_r.
    destruct (p_qos m =? 0) eqn:E0;
      [| destruct (p_qos m =? 1) eqn:E1];
      intros H; injection H as <- <-;
      (eexists; split; [exact Hw|]); cbn [wire_proj flat_map pkt_proj wres_ok app bh_cause fail_class ares_rel];
      (split; [reflexivity|]);
      try reflexivity;
      try (eexists _, _; split; [reflexivity|]; split; [left; split; reflexivity | reflexivity]).
Qed.

(* ---------- refinement theorems ---------- *)
Lemma to_hmsg_fill m fresh : p_uid m <> 0%nat -> hm_fill_id (to_hmsg m) fresh = to_hmsg m.
Proof.
  intros H. unfold hm_fill_id. cbn [h_id to_hmsg].
  destruct (N.of_nat (p_uid m) =? 0) eqn:E; [apply N.eqb_eq in E; lia | reflexivity].
Qed.

(* [attempt_publish] on client k of ANY system world w, and [pub_attempt] on client kb of ANY handle
   world bw whose client kb agrees with (w, k) on initialised / alive (whatever its signaller holds,
   whatever newID would return, whoever calls), under the environment read off the fault plan:
   same packets (projected), related results. *)
Theorem attempt_publish_refines cfg fp w k m dup w' r bw kb fresh owner bw' m' o :
  p_qos m <= 2 -> p_uid m <> 0%nat ->
  bc_inited (bw_get bw kb) = cl_inited (get_client w k) ->
  bc_open (bw_get bw kb) = cl_alive (get_client w k) ->
  attempt_publish cfg fp w k m dup = (w', r) ->
  pub_attempt bw kb (to_hmsg m) dup fresh owner (env_pub fp w k) = (bw', m', o) ->
  exists ext, w_wire w' = w_wire w ++ ext
    /\ bw_wire bw' = bw_wire bw ++ map (pair kb) (wire_proj ext)
    /\ m' = to_hmsg m
    /\ ares_rel m r o.
Proof.
  intros Hq Hu Hi Ho Hs Hh.
  apply attempt_publish_sim in Hs; [|exact Hq]. cbn zeta in Hs. destruct Hs as (ext & Hw & Hp & Hr).
  apply pub_attempt_frame in Hh. cbn zeta in Hh. destruct Hh as (Hm & Hbw & Hout).
  rewrite to_hmsg_fill in Hm, Hbw, Hout by exact Hu. rewrite Hi, Ho in Hbw, Hout.
  exists ext. rewrite Hp. subst o. repeat split; assumption.
Qed.

(* the same for the entries of the retry queue that stand for a handle *)
Theorem run_entry_refines cfg fp w k e h w' r bw kb fresh owner bw' m' o m :
  (e = RPublish m \/ e = RPubRel m) ->
  p_qos m <= 2 -> p_uid m <> 0%nat ->
  handle_of e = Some h ->
  bc_inited (bw_get bw kb) = cl_inited (get_client w k) ->
  bc_open (bw_get bw kb) = cl_alive (get_client w k) ->
  run_entry cfg fp w k e = (w', r) ->
  run_handle bw kb h fresh owner (match e with RPubRel _ => env_rel fp w k | _ => env_pub fp w k end) = (bw', m', o) ->
  exists ext, w_wire w' = w_wire w ++ ext
    /\ bw_wire bw' = bw_wire bw ++ map (pair kb) (wire_proj ext)
    /\ m' = to_hmsg m
    /\ ares_rel m r o.
Proof.
  intros [-> | ->] Hq Hu Hh Hi Ho Hs Hr; cbn [handle_of] in Hh; injection Hh as <-; cbn [run_entry run_handle] in *.
  - eapply attempt_publish_refines; eassumption.
  - apply attempt_pubrel_sim in Hs. cbn zeta in Hs. destruct Hs as (ext & Hw & Hp & Hrel).
    destruct (rel_attempt bw kb (to_hmsg m) owner (ae_rel (env_rel fp w k))) as [bw1 o1] eqn:Er.
    injection Hr as <- <- <-.
    apply rel_attempt_frame in Er. cbn zeta in Er. destruct Er as (Hbw & Hout).
    rewrite Hi, Ho in Hbw, Hout.
    exists ext. rewrite Hp. subst o1. repeat split; assumption.
Qed.

(* ---------- chains of attempts of the system model for one message ---------- *)
(* One attempt of a chain: the world the system is in when the attempt is made (ANY world: between two
   attempts for a message the system runs other requests, reconnects, ...) and the client it runs on. *)
Record sstep := { ss_w : world; ss_k : nat }.

Definition new_entries (w w' : world) : list (nat * pkt * wres) := skipn (length (w_wire w)) (w_wire w').

(* every further attempt runs the entry the previous attempt returned *)
Fixpoint sys_chain (cfg : config) (fp : fplan) (r : ares) (ss : list sstep) : list (nat * pkt * wres) :=
  match ss with
  | [] => []
  | s :: rest =>
      match r with
      | AFail e _ =>
          let '(w', r') := run_entry cfg fp (ss_w s) (ss_k s) e in
          new_entries (ss_w s) w' ++ sys_chain cfg fp r' rest
      | _ => []
      end
  end.

Definition sys_publish_chain (cfg : config) (fp : fplan) (m : pubreq) (s0 : sstep) (ss : list sstep)
  : list (nat * pkt * wres) :=
  let '(w', r) := attempt_publish cfg fp (ss_w s0) (ss_k s0) m false in
  new_entries (ss_w s0) w' ++ sys_chain cfg fp r ss.


Lemma new_entries_app w w' ext : w_wire w' = w_wire w ++ ext -> new_entries w w' = ext.
Proof.
  intros H. unfold new_entries. rewrite H. rewrite skipn_app, skipn_all, Nat.sub_diag. reflexivity.
Qed.

(* projected wire of a system chain started from result r = what a handle chain started from a related
   outcome writes; stated directly on the handle model's functions *)
Lemma sys_chain_good cfg fp m :
  p_qos m <= 2 -> p_uid m <> 0%nat ->
  forall ss r o l,
    ares_rel m r o ->
    chain_good (to_hmsg m) l o ->
    exists o', chain_good (to_hmsg m) (l ++ wire_proj (sys_chain cfg fp r ss)) o'.
Proof.
  intros Hq Hu.
  assert (Hid : h_id (to_hmsg m) <> 0) by (cbn [h_id to_hmsg]; lia).
  assert (Hq' : h_qos (to_hmsg m) <= 2) by exact Hq.
  induction ss as [|s ss IH]; intros r o l Hrel Hg.
  - cbn [sys_chain wire_proj flat_map]. rewrite app_nil_r. eexists; exact Hg.
  - cbn [sys_chain].
    destruct r as [|e cls|cls|]; try (cbn [wire_proj flat_map]; rewrite app_nil_r; eexists; exact Hg).
    cbn [ares_rel] in Hrel. destruct Hrel as (h & c & -> & Hh & _).
    destruct (run_entry cfg fp (ss_w s) (ss_k s) e) as [w' r'] eqn:Er.
    set (cl := get_client (ss_w s) (ss_k s)).
    destruct Hh as [[-> ->] | [-> ->]]; cbn [run_entry] in Er.
    + apply attempt_publish_sim in Er; [|exact Hq]. cbn zeta in Er. destruct Er as (ext & Hw & Hp & Hr').
      rewrite (new_entries_app _ _ _ Hw). unfold wire_proj in *. rewrite flat_map_app, Hp, app_assoc.
      pose proof (handle_step_good (to_hmsg m) l (BhPublish (to_hmsg m)) c (cl_inited cl) (cl_alive cl)
                    (env_pub fp (ss_w s) (ss_k s)) Hid Hq' Hg) as Hg1.
      rewrite handle_writes_publish in Hg1. cbn [handle_outcome] in Hg1.
      exact (IH _ _ _ Hr' Hg1).
    + apply attempt_pubrel_sim in Er. cbn zeta in Er. destruct Er as (ext & Hw & Hp & Hr').
      rewrite (new_entries_app _ _ _ Hw). unfold wire_proj in *. rewrite flat_map_app, Hp, app_assoc.
      pose proof (handle_step_good (to_hmsg m) l (BhPubRel (to_hmsg m)) c (cl_inited cl) (cl_alive cl)
                    (env_rel fp (ss_w s) (ss_k s)) Hid Hq' Hg) as Hg1.
      cbn [handle_outcome] in Hg1.
      exact (IH _ _ _ Hr' Hg1).
Qed.

(* C12_handle_chain_faithful transfers to the system model: the Write calls of ANY chain of attempts
   the system model makes for one message — the first transmission in any world on any client, then
   every returned entry run in any later world on any client, under any fault plan and configuration —
   projected to the handle model's wire, satisfy the SAME predicate [chain_faithful] that
   C12_handle_chain_faithful proves of the base-client model and that V_handle evaluates on the real
   BaseClient. *)
Theorem sys_chain_faithful cfg fp m s0 ss :
  p_qos m <= 2 -> p_uid m <> 0%nat ->
  chain_faithful (to_hmsg m) (wire_proj (sys_publish_chain cfg fp m s0 ss)) = true.
Proof.
  intros Hq Hu. unfold sys_publish_chain.
  destruct (attempt_publish cfg fp (ss_w s0) (ss_k s0) m false) as [w' r] eqn:Ea.
  apply attempt_publish_sim in Ea; [|exact Hq]. cbn zeta in Ea. destruct Ea as (ext & Hw & Hp & Hr).
  rewrite (new_entries_app _ _ _ Hw).
  set (cl := get_client (ss_w s0) (ss_k s0)) in *.
  set (env := env_pub fp (ss_w s0) (ss_k s0)) in *.
  unfold wire_proj in *. rewrite flat_map_app, Hp.
  assert (Hid : h_id (to_hmsg m) <> 0) by (cbn [h_id to_hmsg]; lia).
  (* chain_faithful of the first attempt's writes followed by the rest *)
  unfold pub_writes in *. unfold pub_outcome in Hr.
  cbn [h_qos to_hmsg] in *.
  assert (2 <? p_qos m = false) as E2 by lia. rewrite E2 in *.
  destruct (cl_inited cl) eqn:Ei; cbn [negb] in *.
  - set (tail1 := if (p_qos m =? 2) && bh_acked (cl_alive cl) (ae_pub env)
                  then [WRel (N.of_nat (p_uid m)) (bh_ok (cl_alive cl) (ae_rel env))] else []) in *.
    assert (Hg1 : chain_good (to_hmsg m) tail1
                    (pub_outcome (to_hmsg m) true (cl_alive cl) env)).
    { unfold chain_good, tail1, pub_outcome, rel_outcome, bh_acked, bh_eff. cbn [negb h_qos to_hmsg h_id]. rewrite E2.
      destruct (p_qos m =? 0) eqn:E0.
      - assert (p_qos m =? 2 = false) as -> by lia. cbn [andb later_ok].
        split; [reflexivity|]. destruct (cl_alive cl); [destruct (ae_pub env)|]; exact I.
      - destruct (p_qos m =? 2) eqn:E22; cbn [andb].
        + assert (p_qos m =? 1 = false) as -> by lia.
          destruct (cl_alive cl); cbn [andb negb].
          * destruct (ae_pub env); cbn [later_ok bh_has_rel];
              try (split; [reflexivity|]; repeat split; cbn [h_qos to_hmsg]; lia).
            cbn [h_id h_qos to_hmsg]. rewrite N.eqb_refl, E22. split; [reflexivity|].
            destruct (ae_rel env); try exact I; (split; [reflexivity | cbn [h_qos to_hmsg]; lia]).
          * cbn [later_ok bh_has_rel]. split; [reflexivity|]. repeat split; cbn [h_qos to_hmsg]; lia.
        + cbn [later_ok bh_has_rel]. split; [reflexivity|].
          destruct (cl_alive cl); [destruct (ae_pub env)|]; try (repeat split; cbn [h_qos to_hmsg]; lia).
          destruct (p_qos m =? 1) eqn:E1; [exact I | lia]. }
    assert (Hr' : ares_rel m r (pub_outcome (to_hmsg m) true (cl_alive cl) env)).
    { unfold pub_outcome. cbn [negb h_qos to_hmsg]. rewrite E2. exact Hr. }
    destruct (sys_chain_good cfg fp m Hq Hu ss r _ tail1 Hr' Hg1) as (o' & [Hl _]).
    cbn [app chain_faithful negb andb]. fold tail1.
    unfold hm_content_eqb. rewrite !N.eqb_refl, Bool.eqb_reflx, !str_eqb_refl. cbn [andb].
    assert (h_id (to_hmsg m) =? 0 = false) as -> by (apply N.eqb_neq; exact Hid).
    cbv iota. rewrite orb_true_r. cbn [andb]. exact Hl.
  - (* not initialised: nothing written, no entry returned *)
    cbn [ares_rel] in Hr. destruct r as [|e cls|[]|]; cbn [ares_rel] in Hr;
      try discriminate; try contradiction;
      try (destruct Hr as (? & ? & ? & _); discriminate); try (destruct Hr as (? & ? & _); discriminate).
    destruct ss; reflexivity.
Qed.

(* ---------- the simulating chain of the handle model, explicitly ---------- *)
(* attempt number i of the system chain is simulated by attempt number i of a handle-model chain
   that runs on client i of a world whose i-th client mirrors (initialised / alive, empty signaller)
   the system client of that attempt, under the environment read off the fault plan *)
Definition mirror (c : client) : bclient :=
  {| bc_inited := cl_inited c; bc_open := cl_alive c; bc_ack := []; bc_rec := []; bc_comp := []; bc_sub := []; bc_unsub := [] |}.
Definition mirror_of (s : sstep) : bclient := mirror (get_client (ss_w s) (ss_k s)).
Definition sim_world (s0 : sstep) (ss : list sstep) : bworld :=
  {| bw_clients := map mirror_of (s0 :: ss); bw_wire := [] |}.
Definition entry_env (fp : fplan) (e : rentry) (s : sstep) : aenv :=
  match e with RPubRel _ => env_rel fp (ss_w s) (ss_k s) | _ => env_pub fp (ss_w s) (ss_k s) end.

Fixpoint sim_steps (cfg : config) (fp : fplan) (r : ares) (i : nat) (ss : list sstep) : list bstep :=
  match ss with
  | [] => []
  | s :: rest =>
      match r with
      | AFail e _ =>
          let '(_, r') := run_entry cfg fp (ss_w s) (ss_k s) e in
          {| bs_k := i; bs_ops := []; bs_fresh := 0; bs_env := entry_env fp e s |} :: sim_steps cfg fp r' (S i) rest
      | _ => []
      end
  end.

Definition flags_agree (bw : bworld) (i : nat) (s : sstep) : Prop :=
  bc_inited (bw_get bw i) = cl_inited (get_client (ss_w s) (ss_k s))
  /\ bc_open (bw_get bw i) = cl_alive (get_client (ss_w s) (ss_k s)).

Lemma apply_no_ops_flags bw k k' :
  bc_inited (bw_get (bh_apply_ops bw k []) k') = bc_inited (bw_get bw k')
  /\ bc_open (bw_get (bh_apply_ops bw k []) k') = bc_open (bw_get bw k').
Proof.
  unfold bh_apply_ops. cbn [fold_left]. split.
  - apply bw_get_upd_inited. reflexivity.
  - apply bw_get_upd_open. reflexivity.
Qed.

Lemma sim_chain cfg fp m :
  p_qos m <= 2 -> p_uid m <> 0%nat ->
  forall ss r o i bw,
    ares_rel m r o ->
    (forall j s, nth_error ss j = Some s -> flags_agree bw (i + j) s) ->
    exists bw' o',
      run_chain bw o i (sim_steps cfg fp r i ss) = (bw', o')
      /\ map snd (bw_wire bw') = map snd (bw_wire bw) ++ wire_proj (sys_chain cfg fp r ss).
Proof.
  intros Hq Hu.
  assert (Hid : h_id (to_hmsg m) <> 0) by (cbn [h_id to_hmsg]; lia).
  induction ss as [|s ss IH]; intros r o i bw Hrel Hfl.
  - cbn [sim_steps run_chain sys_chain wire_proj flat_map]. rewrite app_nil_r. eauto.
  - cbn [sim_steps sys_chain].
    destruct r as [|e cls|cls|]; try (cbn [run_chain wire_proj flat_map]; rewrite app_nil_r; eauto).
    cbn [ares_rel] in Hrel. destruct Hrel as (h & c & -> & Hh & _).
    destruct (run_entry cfg fp (ss_w s) (ss_k s) e) as [w' r'] eqn:Er.
    cbn [run_chain bs_k bs_ops bs_fresh bs_env].
    destruct (run_handle (bh_apply_ops bw i []) i h 0 i (entry_env fp e s)) as [[bw1 m1] o1] eqn:Eh.
    assert (Hidh : h_id (bh_msg h) <> 0) by (destruct Hh as [[_ ->] | [_ ->]]; exact Hid).
    pose proof (run_handle_frame _ _ _ _ _ _ _ _ _ Hidh Eh) as Hf. cbn zeta in Hf. destruct Hf as (_ & Hw1 & Ho1).
    destruct (apply_no_ops_flags bw i i) as (Fi & Fo). rewrite Fi, Fo in Hw1, Ho1.
    destruct (Hfl 0%nat s eq_refl) as (Gi & Go). rewrite Nat.add_0_r in Gi, Go. rewrite Gi, Go in Hw1, Ho1.
    (* the other clients keep their flags *)
    assert (Hfl1 : forall j s', nth_error ss j = Some s' -> flags_agree bw1 (S i + j) s').
    { intros j s' Hj. destruct (Hfl (S j) s' Hj) as (A & B).
      destruct (handle_other_ids_untouched _ _ _ _ _ _ _ _ _ Hidh Eh) as (_ & Hoth).
      assert (S i + j <> i)%nat as Hne by lia.
      unfold flags_agree. rewrite (Hoth _ Hne).
      destruct (apply_no_ops_flags bw i (S i + j)) as (A' & B'). rewrite A', B'.
      replace (S i + j)%nat with (i + S j)%nat by lia. split; assumption. }
    assert (Hsys : exists ext, w_wire w' = w_wire (ss_w s) ++ ext
                     /\ wire_proj ext = handle_writes h (cl_inited (get_client (ss_w s) (ss_k s)))
                                          (cl_alive (get_client (ss_w s) (ss_k s))) (entry_env fp e s)
                     /\ ares_rel m r' (handle_outcome h (cl_inited (get_client (ss_w s) (ss_k s)))
                                          (cl_alive (get_client (ss_w s) (ss_k s))) (entry_env fp e s))).
    { destruct Hh as [[-> ->] | [-> ->]]; cbn [run_entry entry_env handle_outcome] in *.
      - apply attempt_publish_sim in Er; [|exact Hq]. cbn zeta in Er. rewrite handle_writes_publish. exact Er.
      - apply attempt_pubrel_sim in Er. exact Er. }
    destruct Hsys as (ext & Hw & Hp & Hr').
    rewrite <- Ho1 in Hr'.
    destruct (IH r' o1 (S i) bw1 Hr' Hfl1) as (bw' & o' & Hrun & Hwire).
    exists bw', o'. split; [exact Hrun|].
    rewrite Hwire, Hw1, map_app, map_map. cbn [snd]. rewrite map_id.
    rewrite (new_entries_app _ _ _ Hw). unfold wire_proj in *. rewrite flat_map_app, Hp, app_assoc. reflexivity.
Qed.

Lemma sim_world_flags s0 ss j s :
  nth_error (s0 :: ss) j = Some s -> flags_agree (sim_world s0 ss) j s.
Proof.
  intros H. unfold flags_agree, bw_get, sim_world; cbn [bw_clients].
  rewrite (nth_error_nth _ _ bc_none (map_nth_error mirror_of _ _ H)). split; reflexivity.
Qed.

(* SIMULATION: for every chain of attempts the system model makes for one message there is a chain of
   the base-client handle model — Publish of [to_hmsg m] and Retry of each returned handle, attempt i on
   client i of [sim_world], environments read off the fault plan — that writes exactly the projected
   packets, in the same order *)
Theorem sys_chain_simulated cfg fp m s0 ss :
  p_qos m <= 2 -> p_uid m <> 0%nat ->
  let r0 := snd (attempt_publish cfg fp (ss_w s0) (ss_k s0) m false) in
  let first := {| bs_k := 0%nat; bs_ops := []; bs_fresh := 0; bs_env := env_pub fp (ss_w s0) (ss_k s0) |} in
  exists bw' o',
    publish_chain (sim_world s0 ss) (to_hmsg m) first (sim_steps cfg fp r0 1 ss) = (bw', o')
    /\ map snd (bw_wire bw') = wire_proj (sys_publish_chain cfg fp m s0 ss).
Proof.
  intros Hq Hu. cbn zeta. unfold publish_chain, sys_publish_chain, base_publish.
  cbn [bs_k bs_ops bs_fresh bs_env h_qos to_hmsg].
  assert (2 <? p_qos m = false) as -> by lia.
  destruct (attempt_publish cfg fp (ss_w s0) (ss_k s0) m false) as [w' r] eqn:Ea. cbn [snd].
  destruct (pub_attempt (bh_apply_ops (sim_world s0 ss) 0 []) 0 (to_hmsg m) false 0 0 (env_pub fp (ss_w s0) (ss_k s0)))
    as [[bw1 m1] o1] eqn:Ep.
  destruct (apply_no_ops_flags (sim_world s0 ss) 0 0) as (Fi & Fo).
  destruct (sim_world_flags s0 ss 0 s0 eq_refl) as (Gi & Go).
  assert (Hbi : bc_inited (bw_get (bh_apply_ops (sim_world s0 ss) 0 []) 0) = cl_inited (get_client (ss_w s0) (ss_k s0)))
    by (rewrite Fi; exact Gi).
  assert (Hbo : bc_open (bw_get (bh_apply_ops (sim_world s0 ss) 0 []) 0) = cl_alive (get_client (ss_w s0) (ss_k s0)))
    by (rewrite Fo; exact Go).
  destruct (attempt_publish_refines _ _ _ _ _ _ _ _ _ _ _ _ _ _ _ Hq Hu Hbi Hbo Ea Ep) as (ext & Hw & Hbw & Hm1 & Hrel).
  assert (Hid : h_id (to_hmsg m) <> 0) by (cbn [h_id to_hmsg]; lia).
  assert (Hfl1 : forall j s, nth_error ss j = Some s -> flags_agree bw1 (1 + j) s).
  { intros j s Hj. unfold flags_agree.
    pose proof (pub_attempt_effect _ _ _ _ _ _ _ _ _ _ Ep) as ((Hoth & _ & _) & _).
    rewrite (Hoth (1 + j)%nat) by lia.
    destruct (apply_no_ops_flags (sim_world s0 ss) 0 (1 + j)) as (A' & B'). rewrite A', B'.
    exact (sim_world_flags s0 ss (S j) s Hj). }
  destruct (sim_chain cfg fp m Hq Hu ss r o1 1%nat bw1 Hrel Hfl1) as (bw' & o' & Hrun & Hwire).
  exists bw', o'. split; [exact Hrun|].
  rewrite Hwire, Hbw. cbn [bw_wire sim_world bh_apply_ops bw_upd app]. rewrite map_map. cbn [snd]. rewrite map_id.
  rewrite (new_entries_app _ _ _ Hw). unfold wire_proj. rewrite flat_map_app. reflexivity.
Qed.

(* hence C12_handle_chain_faithful, applied to the simulating chain, speaks about the system chain *)
Corollary sys_chain_faithful_via_handle cfg fp m s0 ss :
  p_qos m <= 2 -> p_uid m <> 0%nat ->
  chain_faithful (to_hmsg m) (wire_proj (sys_publish_chain cfg fp m s0 ss)) = true.
Proof.
  intros Hq Hu. destruct (sys_chain_simulated cfg fp m s0 ss Hq Hu) as (bw' & o' & Hrun & Hwire).
  destruct (handle_chain_faithful _ _ _ _ _ _ (or_introl (ltac:(cbn [h_id to_hmsg]; lia) : h_id (to_hmsg m) <> 0)) Hrun)
    as (rest & Hrest & Hf).
  cbn [bw_wire sim_world app] in Hrest. rewrite <- Hwire, Hrest. exact Hf.
Qed.

(* ---------- the two predicates ---------- *)
(* [chain_faithful] (the handle-level predicate) on the projection of ANY list of system wire entries
   implies the system-level predicates of CheckRetry that C12_faithful / C12_no_publish_after_pubrel
   are stated with, for every identifier: the two levels mean the same thing by "faithful". *)
Lemma to_hmsg_inj a b : to_hmsg a = to_hmsg b -> a = b.
Proof.
  destruct a, b; unfold to_hmsg; cbn. intros H. injection H as H1 -> -> -> ->.
  apply Nat2N.inj in H1. subst. reflexivity.
Qed.

Lemma pubreq_eqb_refl' m : CheckRetry.pubreq_eqb m m = true.
Proof.
  unfold CheckRetry.pubreq_eqb. rewrite Nat.eqb_refl, N.eqb_refl, Bool.eqb_reflx, !str_eqb_refl. reflexivity.
Qed.

Definition no_pub_at_all (L : list (nat * pkt * wres)) : bool :=
  forallb (fun e => match snd (fst e) with PPublish _ _ => false | _ => true end) L.

Lemma later_ok_released m L : later_ok (to_hmsg m) true (wire_proj L) = true -> no_pub_at_all L = true.
Proof.
  induction L as [|[[k p] r] L IH]; [reflexivity|].
  destruct p; cbn [wire_proj flat_map pkt_proj app later_ok no_pub_at_all forallb snd fst negb andb];
    try discriminate; try exact IH.
  intros H. apply andb_true_iff in H as [_ H]. exact (IH H).
Qed.

Lemma no_pub_entries u L : no_pub_at_all L = true -> CheckRetry.pub_entries u L = [].
Proof.
  induction L as [|[[k p] r] L IH]; [reflexivity|].
  unfold CheckRetry.pub_entries in *. cbn [no_pub_at_all forallb flat_map snd fst].
  destruct p; try discriminate; cbn [andb app]; exact IH.
Qed.

Lemma no_pub_forall u L :
  no_pub_at_all L = true ->
  forallb (fun e => match snd (fst e) with PPublish m _ => negb (Nat.eqb (p_uid m) u) | _ => true end) L = true.
Proof.
  induction L as [|[[k p] r] L IH]; [reflexivity|]. cbn [no_pub_at_all forallb snd fst].
  destruct p; try discriminate; cbn [andb]; exact IH.
Qed.

Lemma later_ok_entries m b u L :
  later_ok (to_hmsg m) b (wire_proj L) = true ->
  forallb (fun e => CheckRetry.pubreq_eqb (fst e) m && snd e) (CheckRetry.pub_entries u L) = true
  /\ (CheckRetry.pub_entries u L = [] \/ 0 < p_qos m)
  /\ CheckRetry.no_publish_after_rel u L = true.
Proof.
  revert b; induction L as [|[[k p] r] L IH]; intros b H.
  - repeat split. left; reflexivity.
  - unfold CheckRetry.pub_entries in *. cbn [flat_map snd fst CheckRetry.no_publish_after_rel].
    destruct p as [m' d | u' | |]; cbn [wire_proj flat_map pkt_proj app later_ok] in H.
    + repeat (apply andb_true_iff in H; destruct H as [H ?]).
      apply hmsg_eqb_eq, to_hmsg_inj in H2. subst m'.
      destruct (IH _ H0) as (A & B & C). cbn [h_qos to_hmsg] in H1.
      destruct (Nat.eqb (p_uid m) u); cbn [app forallb fst snd].
      * rewrite pubreq_eqb_refl', H3, A. repeat split; [right; lia | exact C].
      * repeat split; assumption.
    + repeat (apply andb_true_iff in H; destruct H as [H ?]).
      destruct (IH _ H0) as (A & B & C). cbn [app]. repeat split; try assumption.
      destruct (Nat.eqb u u' && match r with WAck | WOk => true | _ => false end); [|exact C].
      apply no_pub_forall. apply (later_ok_released m). exact H0.
    + cbn [app]. exact (IH _ H).
    + cbn [app]. exact (IH _ H).
Qed.

Lemma pub_entries_uid u L e : In e (CheckRetry.pub_entries u L) -> p_uid (fst e) = u.
Proof.
  unfold CheckRetry.pub_entries. intros H. apply in_flat_map in H as ([[k p] r] & _ & H). cbn [snd fst] in H.
  destruct p; try contradiction. destruct (Nat.eqb (p_uid m) u) eqn:E; [|contradiction].
  destruct H as [<-|[]]. apply Nat.eqb_eq in E. exact E.
Qed.

Theorem chain_faithful_system_predicates m0 L :
  chain_faithful m0 (wire_proj L) = true ->
  forall u, CheckRetry.faithful (CheckRetry.pub_entries u L) = true
            /\ CheckRetry.no_publish_after_rel u L = true.
Proof.
  induction L as [|[[k p] r] L IH]; intros H u.
  - split; reflexivity.
  - destruct p as [m1 d | u' | |].
    + cbn [wire_proj flat_map pkt_proj app chain_faithful] in H.
      repeat (apply andb_true_iff in H; destruct H as [H ?]).
      destruct (later_ok_entries m1 false u L H0) as (A & B & C).
      cbn [CheckRetry.no_publish_after_rel]. split; [|exact C].
      unfold CheckRetry.pub_entries in *. cbn [flat_map snd fst].
      destruct (Nat.eqb (p_uid m1) u) eqn:E; cbn [app].
      * cbn [CheckRetry.faithful]. rewrite H, A. cbn [andb].
        destruct B as [-> | B]; [apply orb_true_r|].
        assert (p_qos m1 =? 0 = false) as -> by lia. reflexivity.
      * (* every PUBLISH in L is m1 again, whose uid is not u *)
        fold (CheckRetry.pub_entries u L) in A |- *.
        destruct (CheckRetry.pub_entries u L) as [|e l] eqn:El; [reflexivity|]. exfalso.
        assert (In e (CheckRetry.pub_entries u L)) as Hin by (rewrite El; left; reflexivity).
        pose proof (pub_entries_uid u L e Hin) as Hu.
        cbn [forallb] in A. apply andb_true_iff in A as [A _]. apply andb_true_iff in A as [A _].
        unfold CheckRetry.pubreq_eqb in A. repeat (apply andb_true_iff in A; destruct A as [A ?]).
        apply Nat.eqb_eq in A. apply Nat.eqb_neq in E. congruence.
    + cbn [wire_proj flat_map pkt_proj app chain_faithful] in H. discriminate.
    + cbn [wire_proj flat_map pkt_proj app] in H. destruct (IH H u) as (A & B).
      unfold CheckRetry.pub_entries in *. cbn [flat_map snd fst app CheckRetry.no_publish_after_rel]. split; assumption.
    + cbn [wire_proj flat_map pkt_proj app] in H. destruct (IH H u) as (A & B).
      unfold CheckRetry.pub_entries in *. cbn [flat_map snd fst app CheckRetry.no_publish_after_rel]. split; assumption.
Qed.

(* both together: the attempts the system model makes for one message, judged by the system-level
   predicates, via the handle-level theorem *)
Corollary sys_chain_system_predicates cfg fp m s0 ss :
  p_qos m <= 2 -> p_uid m <> 0%nat ->
  forall u, CheckRetry.faithful (CheckRetry.pub_entries u (sys_publish_chain cfg fp m s0 ss)) = true
            /\ CheckRetry.no_publish_after_rel u (sys_publish_chain cfg fp m s0 ss) = true.
Proof.
  intros Hq Hu. apply (chain_faithful_system_predicates (to_hmsg m)).
  apply sys_chain_faithful_via_handle; assumption.
Qed.

(* non-vacuity: a QoS 2 publish (uid 5) whose PUBLISH is lost with connection 0, re-sent on connection 1
   where the PUBREL's acknowledgement is lost, PUBREL on connection 2 *)
Definition ex_cfg : config := {| c_method_b := false; c_always_resub := false; c_timeout := false |}.
Definition ex_fp : fplan := fun k i =>
  match k, i with 0%nat, 0%nat => FLostAfter | 1%nat, 1%nat => FAckLost | _, _ => FNone end.
Definition ex_cl : client := {| cl_inited := true; cl_alive := true; cl_accepted := true; cl_sent := 0 |}.
Definition ex_sw : world := set_clients world0 [ex_cl; ex_cl; ex_cl].
Definition ex_pm : pubreq := {| p_uid := 5; p_qos := 2; p_retain := false; p_topic := [97]; p_payload := [1] |}.
Example ex_sys_chain :
  wire_proj (sys_publish_chain ex_cfg ex_fp ex_pm {| ss_w := ex_sw; ss_k := 0 |}
               [{| ss_w := ex_sw; ss_k := 1 |}; {| ss_w := ex_sw; ss_k := 2 |}])
  = [WPub (to_hmsg ex_pm) false true; WPub (to_hmsg ex_pm) true true; WRel 5 true; WRel 5 true].
Proof. vm_compute. reflexivity. Qed.
